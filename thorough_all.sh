#!/bin/bash
# Runs every thorough check once against a COPY of the repository (never /repo itself), writing evidence / replays
# into this directory:   ./thorough_all.sh <repo copy> [seed]        (for `vp run --with-repo`)
R="$1"; SEED="${2:-1}"
[ -d "$R/src" ] || { echo "no repository copy at $R"; exit 2; }
HERE="$(cd "$(dirname "$0")" && pwd)"; cd "$HERE" || exit 2
[ "$(realpath "$R")" = "/repo" ] || sed -i "s#path = \"/repo\"#path = \"$R\"#" harness/Cargo.toml
export VERIF_DIR="$HERE" VERIF_REPO="$R" VERIF_SEED="$SEED"
for id in C01 C02 C03 C04 C05 C06 C07 C08 C09 C10 C11 C12 C13 C14 C15 C16 C17; do
  t0=$(date +%s); o=$(./check $id thorough 2>&1); rc=$?
  echo "$id exit=$rc $(( $(date +%s)-t0 ))s $(echo "$o" | grep -c '^KNOWN') KF :: $(echo "$o" | grep -E '^(VIOLATION|INCONCLUSIVE|RESULT)' | head -3 | cut -c1-300 | tr '\n' '|')"
done
