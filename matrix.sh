#!/bin/bash
# Cross-detection matrix: every seeded change x every check (reduced budget), run against a COPY of the
# repository (never /repo itself):   ./matrix.sh <repo copy> [budget scale] [seed names...]
# Meant for `vp run --with-repo -- ./matrix.sh $VP_RUN_REPO 0.3`; writes matrix_results.jsonl into the cwd.
R="$1"; SCALE="${2:-0.3}"; shift; shift
[ -d "$R/src" ] || { echo "no repository copy at $R"; exit 2; }
[ "$(realpath "$R")" = "/repo" ] && { echo "refusing to modify /repo"; exit 2; }
HERE="$(cd "$(dirname "$0")" && pwd)"
cd "$HERE" || exit 2
sed -i "s#path = \"/repo\"#path = \"$R\"#" harness/Cargo.toml
export VERIF_DIR="$HERE" VERIF_REPO="$R" VERIF_BUDGET_SCALE="$SCALE" VERIF_PLAIN=0
seeds="$@"; [ -z "$seeds" ] && seeds=$(ls seeded | grep -E '^C[0-9]+-[ab]$')
out="$HERE/matrix_results.jsonl"
for s in $seeds; do
  ( cd "$R" && git apply "$HERE/seeded/$s/patch.diff" ) || { echo "{\"seed\":\"$s\",\"error\":\"patch does not apply\"}" >> "$out"; continue; }
  for id in ${MATRIX_CHECKS:-C01 C02 C03 C04 C05 C06 C07 C08 C09 C10 C11 C12 C13 C14 C15 C16 C17}; do
    t0=$(date +%s)
    o=$(./check $id quick 2>&1); rc=$?
    nv=$(echo "$o" | grep -c '^VIOLATION')
    first=$(echo "$o" | grep -m1 '^VIOLATION' | sed 's/.*# //' | cut -c1-200 | tr '"\\' "' ")
    echo "{\"seed\":\"$s\",\"check\":\"$id\",\"exit\":$rc,\"violations\":$nv,\"wall_s\":$(( $(date +%s)-t0 )),\"first\":\"$first\"}" >> "$out"
  done
  ( cd "$R" && git apply -R "$HERE/seeded/$s/patch.diff" )
done
echo '{"done":true}' >> "$out"
