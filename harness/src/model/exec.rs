//! Shared execution engine for the program-level monitors (C01, C02, C14, ...): print a generated
//! program, compile it in all configurations, run argument tuples through the reference
//! interpreter and through the circuits, and classify every execution.

use super::ast::*;
use super::gen;
use super::interp::{Interp, Stop};
use super::print::{self, Layout};
use super::ty::{self, Defs, Ty, Val};
use crate::bits;
use crate::gl::{self, CompileOutcome};
use crate::ints::Reason;
use crate::rng::Rng;
use crate::util::{catch, Counts};
use garble_lang::circuit::Circuit;
use garble_lang::literal::{Literal, VariantLiteral};
use garble_lang::register_circuit as rc;
use garble_lang::GarbleProgram;
use serde_json::{json, Value};

pub const GATE_CAP: usize = 250_000;

pub struct Printed {
    pub toks: Vec<String>,
    pub src: String,
    pub layout: Layout,
}

pub fn print(prog: &Program, style: u64, layout: Layout) -> Printed {
    let toks = print::print_program(prog, style);
    let src = print::render(&toks, layout);
    Printed { toks, src, layout }
}

pub struct Compiled {
    pub on: Box<GarbleProgram>,
    pub off: Box<GarbleProgram>,
    pub reg_on: rc::Circuit,
    pub reg_off: rc::Circuit,
}

pub enum CompileResult {
    Ok(Compiled),
    Rejected(&'static str, String),
    Crashed(String),
    TooBig(usize),
}

/// Builder gates (before pruning) a single compilation may use: hook H6 turns a compilation that
/// blows up (possible on a changed tree) into a counted `TooBig` instead of a stuck worker thread.
pub const BUILDER_GATE_LIMIT: usize = 4_000_000;

pub fn compile_all(src: &str) -> CompileResult {
    garble_lang::verif_hooks::set_gate_limit(Some(BUILDER_GATE_LIMIT));
    let r = compile_all_inner(src);
    garble_lang::verif_hooks::set_gate_limit(None);
    match r {
        CompileResult::Crashed(m) if m.contains("verif_hooks: gate limit") => CompileResult::TooBig(BUILDER_GATE_LIMIT),
        r => r,
    }
}

fn compile_all_inner(src: &str) -> CompileResult {
    let on = match gl::compile(src, true, false) {
        CompileOutcome::Ok(p) => p,
        CompileOutcome::Rejected(k, m) => return CompileResult::Rejected(k, m),
        CompileOutcome::Crashed(m) => return CompileResult::Crashed(m),
    };
    let n = gl::ssa(&on).gates.len();
    if n > GATE_CAP {
        return CompileResult::TooBig(n);
    }
    let off = match gl::compile(src, false, false) {
        CompileOutcome::Ok(p) => p,
        CompileOutcome::Rejected(k, m) => return CompileResult::Rejected(k, format!("(only with dedup off) {m}")),
        CompileOutcome::Crashed(m) => return CompileResult::Crashed(format!("(dedup off) {m}")),
    };
    if gl::ssa(&off).gates.len() > 4 * GATE_CAP {
        return CompileResult::TooBig(gl::ssa(&off).gates.len());
    }
    let reg_on = match catch(|| rc::Circuit::from(gl::ssa(&on))) {
        Ok(r) => r,
        Err(p) => return CompileResult::Crashed(format!("register conversion: {p}")),
    };
    let reg_off = match catch(|| rc::Circuit::from(gl::ssa(&off))) {
        Ok(r) => r,
        Err(p) => return CompileResult::Crashed(format!("register conversion: {p}")),
    };
    CompileResult::Ok(Compiled { on, off, reg_on, reg_off })
}

/// What the reference semantics say about one execution.
#[derive(Clone, Debug)]
pub enum Expect {
    Value(Val),
    Panic(Vec<(Reason, Span)>),
    /// not judged (reason)
    Skip(&'static str),
}

pub fn expected(prog: &Program, args: &[Val]) -> (Expect, u64, u64) {
    let mut it = Interp::new(prog);
    let r = it.run_main(args);
    let e = match r {
        Ok(v) => Expect::Value(v),
        Err(Stop::Panic(p)) => Expect::Panic(p.alts),
        Err(Stop::Tainted(k)) => Expect::Skip(k),
        Err(Stop::Ambiguous(_)) => Expect::Skip("ambiguous"),
        Err(Stop::Limit) => Expect::Skip("step-limit"),
    };
    (e, it.sites_evaluated, it.branches_skipped)
}

/// What one circuit configuration produced for one lane.
#[derive(Clone, Debug, PartialEq)]
pub enum Observed {
    Value(Option<Val>, Vec<bool>),
    Panic { reason: u32, start: (u32, u32), end: (u32, u32) },
}

pub fn observe(out: &[u64], lane: usize, ret: &Ty, defs: &Defs) -> Observed {
    match gl::decode_panic(out, lane) {
        Some(p) => Observed::Panic { reason: p.reason, start: p.start, end: p.end },
        None => {
            let bits: Vec<bool> = out[gl::PANIC_BITS..].iter().map(|w| (w >> lane) & 1 == 1).collect();
            Observed::Value(ty::decode(&bits, ret, defs), bits)
        }
    }
}

pub const CONFIGS: [&str; 4] = ["ssa/dedup-on", "ssa/dedup-off", "register/dedup-on", "register/dedup-off"];

/// Evaluate all four configurations on the packed input words.
pub fn eval_configs(c: &Compiled, words: &[u64]) -> Result<[Vec<u64>; 4], String> {
    let mut st = bits::RegStats::default();
    Ok([
        bits::eval_ssa(gl::ssa(&c.on), words).map_err(|e| format!("{}: {e}", CONFIGS[0]))?,
        bits::eval_ssa(gl::ssa(&c.off), words).map_err(|e| format!("{}: {e}", CONFIGS[1]))?,
        bits::eval_reg(&c.reg_on, words, &mut st).map_err(|e| format!("{}: {e}", CONFIGS[2]))?,
        bits::eval_reg(&c.reg_off, words, &mut st).map_err(|e| format!("{}: {e}", CONFIGS[3]))?,
    ])
}

pub fn encode_args(prog: &Program, args: &[Val]) -> Vec<bool> {
    let mut out = vec![];
    for (p, v) in prog.main().params.iter().zip(args) {
        ty::encode(v, &p.ty, &prog.defs, &mut out);
    }
    out
}

#[derive(Clone, Debug, PartialEq, Eq)]
pub enum Verdict {
    Agree,
    /// expected a value, circuit gave a different value / undecodable bits
    WrongValue,
    /// expected a value, circuit panicked
    SpuriousPanic,
    /// expected a panic, circuit did not
    MissedPanic,
    WrongReason,
    WrongLocation,
}

/// Compare one lane of one configuration against the expectation. Locations are compared (start and
/// end, line and column) only in the token-per-line layout, where they identify the failing node.
pub fn judge(exp: &Expect, obs: &Observed, layout: Layout, toks: &[String]) -> Option<Verdict> {
    match (exp, obs) {
        (Expect::Skip(_), _) => None,
        (Expect::Value(v), Observed::Value(Some(o), _)) => Some(if v == o { Verdict::Agree } else { Verdict::WrongValue }),
        (Expect::Value(_), Observed::Value(None, _)) => Some(Verdict::WrongValue),
        (Expect::Value(_), Observed::Panic { .. }) => Some(Verdict::SpuriousPanic),
        (Expect::Panic(_), Observed::Value(..)) => Some(Verdict::MissedPanic),
        (Expect::Panic(alts), Observed::Panic { reason, start, end }) => {
            if !alts.iter().any(|(r, _)| r.code() == *reason) {
                return Some(Verdict::WrongReason);
            }
            if layout != Layout::TokenPerLine {
                return Some(Verdict::Agree);
            }
            // token-per-line layout: token i stands alone on line i + 1 behind one blank, so the node's
            // location starts at column 1 of its first token's line and ends right behind its last token
            let ok = alts.iter().any(|(r, sp)| {
                r.code() == *reason
                    && sp.0 != u32::MAX
                    && print::line_of_token(sp.0) == start.0
                    && print::line_of_token(sp.1) == end.0
                    && start.1 == 1
                    && toks.get(sp.1 as usize).map(|t| end.1 as usize == 1 + t.chars().count()).unwrap_or(false)
            });
            Some(if ok { Verdict::Agree } else { Verdict::WrongLocation })
        }
    }
}

pub fn describe_expect(e: &Expect, ret: &Ty, defs: &Defs) -> Value {
    match e {
        Expect::Value(v) => json!({"value": ty::val_text(v, ret, defs)}),
        Expect::Panic(alts) => json!({"panic_any_of": alts.iter().map(|(r, s)| json!({"reason": r.name(), "start_line": print::line_of_token(s.0), "end_line": print::line_of_token(s.1)})).collect::<Vec<_>>()}),
        Expect::Skip(k) => json!({"skipped": k}),
    }
}

pub fn describe_observed(o: &Observed, ret: &Ty, defs: &Defs) -> Value {
    match o {
        Observed::Value(Some(v), _) => json!({"value": ty::val_text(v, ret, defs)}),
        Observed::Value(None, bits) => json!({"undecodable_bits": bits.iter().map(|b| if *b { '1' } else { '0' }).collect::<String>()}),
        Observed::Panic { reason, start, end } => json!({"panic": gl::reason_name(*reason), "start": [start.0, start.1], "end": [end.0, end.1]}),
    }
}

/// Convert a garble Literal (as returned by parse_output) to a model value.
pub fn lit_to_val(l: &Literal, t: &Ty, d: &Defs) -> Option<Val> {
    Some(match (l, t) {
        (Literal::True, Ty::Bool) => Val::Bool(true),
        (Literal::False, Ty::Bool) => Val::Bool(false),
        (Literal::NumUnsigned(n, _), Ty::Int(it)) if !it.signed => Val::Int(*n as i128),
        (Literal::NumSigned(n, _), Ty::Int(it)) if it.signed => Val::Int(*n as i128),
        (Literal::Array(es), Ty::Array(et, n)) if es.len() == *n => Val::Array(es.iter().map(|e| lit_to_val(e, et, d)).collect::<Option<Vec<_>>>()?),
        (Literal::Tuple(fs), Ty::Tuple(ts)) if fs.len() == ts.len() => Val::Tuple(fs.iter().zip(ts).map(|(f, t)| lit_to_val(f, t, d)).collect::<Option<Vec<_>>>()?),
        (Literal::Struct(name, fs), Ty::Struct(si)) if *name == d.structs[*si].name => {
            let sd = &d.structs[*si];
            let mut vals: Vec<Option<Val>> = vec![None; sd.fields.len()];
            for (fname, fl) in fs {
                let k = sd.field_index(fname)?;
                vals[k] = Some(lit_to_val(fl, &sd.fields[k].1, d)?);
            }
            Val::Struct(vals.into_iter().collect::<Option<Vec<_>>>()?)
        }
        (Literal::Enum(name, var, payload), Ty::Enum(ei)) if *name == d.enums[*ei].name => {
            let ed = &d.enums[*ei];
            let vi = ed.variants.iter().position(|(n, _)| n == var)?;
            let fields = match payload {
                VariantLiteral::Unit => vec![],
                VariantLiteral::Tuple(fs) => fs.iter().zip(&ed.variants[vi].1).map(|(f, t)| lit_to_val(f, t, d)).collect::<Option<Vec<_>>>()?,
            };
            if fields.len() != ed.variants[vi].1.len() {
                return None;
            }
            Val::Enum(vi, fields)
        }
        _ => return None,
    })
}

/// Statistics of a batch of executions of one program.
#[derive(Default, Clone, Debug)]
pub struct ExecStats {
    pub executions: u64,
    pub judged: u64,
    pub expected_ok: u64,
    pub expected_panic: u64,
    pub skipped: Counts,
    pub panic_reasons: Counts,
    pub multi_alt: u64,
    pub sites_evaluated: u64,
    pub branches_skipped: u64,
    pub cross_checked: u64,
}

pub struct Mismatch {
    pub config: &'static str,
    pub verdict: Verdict,
    pub args_text: Vec<String>,
    pub expected: Value,
    pub observed: Value,
}

/// Run `arg_tuples` (<= 64) through interpreter and all configurations.
pub fn run_batch(prog: &Program, pr: &Printed, c: &Compiled, arg_tuples: &[Vec<Val>], st: &mut ExecStats) -> Result<Vec<Mismatch>, String> {
    assert!(arg_tuples.len() <= 64 && !arg_tuples.is_empty());
    let main = prog.main();
    let defs = &prog.defs;
    let in_bits: usize = main.params.iter().map(|p| p.ty.bits(defs)).sum();
    let circ_in: usize = gl::ssa(&c.on).input_gates.iter().sum();
    if circ_in != in_bits {
        return Err(format!("circuit has {circ_in} input bits, the parameter types have {in_bits}"));
    }
    let out_bits = gl::PANIC_BITS + main.ret.bits(defs);
    if gl::ssa(&c.on).output_gates.len() != out_bits {
        return Err(format!("circuit has {} output bits, expected 161 + {}", gl::ssa(&c.on).output_gates.len(), main.ret.bits(defs)));
    }
    let encs: Vec<Vec<bool>> = arg_tuples.iter().map(|a| encode_args(prog, a)).collect();
    let words = bits::pack_lanes(&encs);
    let outs = eval_configs(c, &words)?;
    let mut mismatches = vec![];
    for (l, args) in arg_tuples.iter().enumerate() {
        st.executions += 1;
        let (exp, sites, skipped) = expected(prog, args);
        st.sites_evaluated += sites;
        st.branches_skipped += skipped;
        match &exp {
            Expect::Value(_) => st.expected_ok += 1,
            Expect::Panic(alts) => {
                st.expected_panic += 1;
                st.panic_reasons.inc(alts[0].0.name());
                if alts.len() > 1 {
                    st.multi_alt += 1;
                }
            }
            Expect::Skip(k) => {
                st.skipped.inc(k);
                continue;
            }
        }
        st.judged += 1;
        for (ci, out) in outs.iter().enumerate() {
            let obs = observe(out, l, &main.ret, defs);
            let v = judge(&exp, &obs, pr.layout, &pr.toks).unwrap();
            if v != Verdict::Agree {
                mismatches.push(Mismatch {
                    config: CONFIGS[ci],
                    verdict: v,
                    args_text: args.iter().zip(&main.params).map(|(a, p)| ty::val_text(a, &p.ty, defs)).collect(),
                    expected: describe_expect(&exp, &main.ret, defs),
                    observed: describe_observed(&obs, &main.ret, defs),
                });
            }
        }
        if l == 0 && mismatches.is_empty() {
            // cross-check garble's own argument parser, evaluator and output decoder on lane 0
            st.cross_checked += 1;
            let r = catch(|| {
                let mut parts: Vec<Vec<bool>> = vec![];
                let single_array = main.params.len() == 1 && matches!(main.params[0].ty, Ty::Array(..));
                if single_array {
                    // one party per element: the argument cannot be passed through parse_arg per party
                    let Ty::Array(et, n) = &main.params[0].ty else { unreachable!() };
                    let eb = et.bits(defs);
                    for k in 0..*n {
                        parts.push(encs[0][k * eb..(k + 1) * eb].to_vec());
                    }
                } else {
                    for (i, (a, p)) in args.iter().zip(&main.params).enumerate() {
                        let text = ty::val_text(a, &p.ty, defs);
                        let arg = c.on.parse_arg(i, &text).map_err(|e| format!("parse_arg({i}, {text}) failed: {e:?}"))?;
                        parts.push(arg.as_bits());
                    }
                }
                let flat: Vec<bool> = parts.iter().flatten().copied().collect();
                if flat != encs[0] {
                    return Err("parse_arg(..).as_bits() differs from the documented encoding".to_string());
                }
                let o = c.on.circuit.eval(&parts);
                if o != bits::lane(&outs[0], 0) {
                    return Err("garble's eval differs from the harness evaluator".to_string());
                }
                match (c.on.parse_output(&o), &exp) {
                    (Ok(lit), Expect::Value(v)) => {
                        if lit_to_val(&lit, &main.ret, defs).as_ref() != Some(v) {
                            return Err(format!("parse_output gives {lit} for an expected {}", ty::val_text(v, &main.ret, defs)));
                        }
                    }
                    (Err(garble_lang::eval::EvalError::Panic(p)), Expect::Panic(_)) => {
                        // the decoded panic (reason, location) is the record the circuit produced,
                        // as the harness reads it off the 161 panic bits
                        let reason = match p.reason {
                            garble_lang::circuit::PanicReason::Overflow => 1,
                            garble_lang::circuit::PanicReason::DivByZero => 2,
                            garble_lang::circuit::PanicReason::OutOfBounds => 3,
                        };
                        let (s, e) = (p.panicked_at.start, p.panicked_at.end);
                        let decoded = Observed::Panic { reason, start: (s.0 as u32, s.1 as u32), end: (e.0 as u32, e.1 as u32) };
                        let raw = observe(&outs[0], 0, &main.ret, defs);
                        let same = match (&decoded, &raw) {
                            (Observed::Panic { reason: r1, start: s1, end: e1 }, Observed::Panic { reason: r2, start: s2, end: e2 }) => r1 == r2 && s1 == s2 && e1 == e2,
                            _ => false,
                        };
                        if !same {
                            return Err(format!("parse_output decodes the panic record as {:?}, the output bits say {:?}", describe_observed(&decoded, &main.ret, defs), describe_observed(&raw, &main.ret, defs)));
                        }
                    }
                    (other, _) => return Err(format!("parse_output gives {other:?}")),
                }
                Ok(())
            });
            match r {
                Ok(Ok(())) => {}
                Ok(Err(e)) => return Err(format!("cross-check on args {:?}: {e}", args.iter().zip(&main.params).map(|(a, p)| ty::val_text(a, &p.ty, defs)).collect::<Vec<_>>())),
                Err(p) => return Err(format!("garble API panicked during cross-check: {p}")),
            }
        }
    }
    Ok(mismatches)
}

/// Generate a program + printed form.
pub fn generate(rng: &mut Rng, cfg: gen::GenCfg, layout: Layout) -> (Program, Printed, std::collections::BTreeSet<&'static str>) {
    let style = rng.next_u64();
    let g = gen::Gen::new(rng, cfg);
    let (prog, used) = g.gen_program();
    let pr = print(&prog, style, layout);
    (prog, pr, used)
}
