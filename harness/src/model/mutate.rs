//! Rule-breaking edits of well-typed generated programs (C17): every edit makes the program
//! violate exactly one documented static rule.

use super::ast::*;
use super::ty::{Defs, Ty, Val};
use crate::ints::{self, BinOp};
use crate::rng::Rng;

#[derive(Clone, Copy, Debug, PartialEq, Eq, Hash, PartialOrd, Ord)]
pub enum Rule {
    OperandType,
    ShiftAmountType,
    ConditionNotBool,
    ShortCircuitOperandType,
    CallArgType,
    CallArgCount,
    ReturnType,
    DeclaredReturnType,
    BranchType,
    MatchArmType,
    LetAnnotationType,
    UnknownIdentifier,
    AssignToImmutable,
    UseAfterScopeEnd,
    RefutableLetPattern,
    RefutableForPattern,
    DirectRecursion,
    MutualRecursion,
    StructFieldCount,
    EnumPayloadCount,
    TuplePatternArity,
    CastNonPrimitive,
    NegateUnsigned,
    IndexNotUsize,
    MatchOnArray,
}

pub const AST_RULES: [Rule; 25] = [
    Rule::OperandType,
    Rule::ShiftAmountType,
    Rule::ConditionNotBool,
    Rule::ShortCircuitOperandType,
    Rule::CallArgType,
    Rule::CallArgCount,
    Rule::ReturnType,
    Rule::DeclaredReturnType,
    Rule::BranchType,
    Rule::MatchArmType,
    Rule::LetAnnotationType,
    Rule::UnknownIdentifier,
    Rule::AssignToImmutable,
    Rule::UseAfterScopeEnd,
    Rule::RefutableLetPattern,
    Rule::RefutableForPattern,
    Rule::DirectRecursion,
    Rule::MutualRecursion,
    Rule::StructFieldCount,
    Rule::EnumPayloadCount,
    Rule::TuplePatternArity,
    Rule::CastNonPrimitive,
    Rule::NegateUnsigned,
    Rule::IndexNotUsize,
    Rule::MatchOnArray,
];

fn ex(kind: ExprKind, ty: Ty) -> Expr {
    Expr::new(kind, ty)
}

/// A literal whose concrete type differs from `t`.
fn other_type_literal(t: &Ty, rng: &mut Rng) -> Expr {
    match t {
        Ty::Bool => ex(ExprKind::Lit(Val::Int(1)), Ty::Int(ints::U8)),
        Ty::Int(it) => {
            if rng.chance(1, 4) {
                ex(ExprKind::Lit(Val::Bool(true)), Ty::Bool)
            } else {
                let all = [ints::U8, ints::U16, ints::U32, ints::U64, ints::USIZE, ints::I8, ints::I16, ints::I32, ints::I64];
                let cands: Vec<_> = all.iter().filter(|o| *o != it).collect();
                let o = **rng.pick(&cands);
                ex(ExprKind::Lit(Val::Int(1)), Ty::Int(o))
            }
        }
        _ => {
            if rng.bool() {
                ex(ExprKind::Lit(Val::Bool(true)), Ty::Bool)
            } else {
                ex(ExprKind::Lit(Val::Int(1)), Ty::Int(ints::U8))
            }
        }
    }
}

#[derive(Clone)]
struct V {
    name: String,
    ty: Ty,
    mutable: bool,
}

pub struct Mutator<'a> {
    rule: Rule,
    /// apply the edit at the `target`-th applicable site (counting from 0)
    target: usize,
    pub seen: usize,
    pub applied: bool,
    rng: &'a mut Rng,
    defs: Defs,
    fns: Vec<(String, Vec<Param>, Ty)>,
    scopes: Vec<Vec<V>>,
    /// names declared anywhere in the program (for use-after-scope uniqueness)
    decl_counts: std::collections::HashMap<String, usize>,
    cur_fn: usize,
}

fn count_decls_pat(p: &Pat, m: &mut std::collections::HashMap<String, usize>) {
    match p {
        Pat::Bind(n) => *m.entry(n.clone()).or_insert(0) += 1,
        Pat::Tuple(ps) | Pat::Enum(_, _, ps) => ps.iter().for_each(|p| count_decls_pat(p, m)),
        Pat::Struct(_, fs, _) => fs.iter().for_each(|(_, p)| count_decls_pat(p, m)),
        _ => {}
    }
}

fn count_decls_block(b: &Block, m: &mut std::collections::HashMap<String, usize>) {
    for s in &b.stmts {
        count_decls_stmt(s, m);
    }
    if let Some(t) = &b.tail {
        count_decls_expr(t, m);
    }
}

fn count_decls_stmt(s: &Stmt, m: &mut std::collections::HashMap<String, usize>) {
    match &s.kind {
        StmtKind::Let(p, _, e, _) => {
            count_decls_pat(p, m);
            count_decls_expr(e, m);
        }
        StmtKind::LetMut(n, _, e, _) => {
            *m.entry(n.clone()).or_insert(0) += 1;
            count_decls_expr(e, m);
        }
        StmtKind::Assign { accs, value, .. } => {
            for a in accs {
                if let Acc::Index(i) = a {
                    count_decls_expr(i, m);
                }
            }
            count_decls_expr(value, m);
        }
        StmtKind::For { pat, iter, body } => {
            count_decls_pat(pat, m);
            count_decls_expr(iter, m);
            body.iter().for_each(|s| count_decls_stmt(s, m));
        }
        StmtKind::ForJoin { pat, a, b, body } => {
            count_decls_pat(pat, m);
            count_decls_expr(a, m);
            count_decls_expr(b, m);
            body.iter().for_each(|s| count_decls_stmt(s, m));
        }
        StmtKind::Expr(e) => count_decls_expr(e, m),
    }
}

fn count_decls_expr(e: &Expr, m: &mut std::collections::HashMap<String, usize>) {
    match &e.kind {
        ExprKind::Un(_, x) | ExprKind::Cast(x) | ExprKind::TupleField(x, _) | ExprKind::StructField(x, _) | ExprKind::ArrayRepeat(x, _) => count_decls_expr(x, m),
        ExprKind::Bin(_, a, b) | ExprKind::Index(a, b) | ExprKind::Join(a, b) => {
            count_decls_expr(a, m);
            count_decls_expr(b, m);
        }
        ExprKind::If(c, t, f) => {
            count_decls_expr(c, m);
            count_decls_block(t, m);
            count_decls_block(f, m);
        }
        ExprKind::Match(s, arms) => {
            count_decls_expr(s, m);
            for (p, b) in arms {
                count_decls_pat(p, m);
                count_decls_block(b, m);
            }
        }
        ExprKind::Block(b) => count_decls_block(b, m),
        ExprKind::Call(_, xs) | ExprKind::ArrayLit(xs) | ExprKind::TupleLit(xs) | ExprKind::EnumLit(_, _, xs) => xs.iter().for_each(|x| count_decls_expr(x, m)),
        ExprKind::StructLit(_, fs) => fs.iter().for_each(|(_, x)| count_decls_expr(x, m)),
        ExprKind::Lit(_) | ExprKind::Var(_) | ExprKind::Range(..) => {}
    }
}

fn first_decl_in_stmt(s: &Stmt) -> Vec<String> {
    // names declared strictly inside nested scopes of this statement
    let mut m = std::collections::HashMap::new();
    match &s.kind {
        StmtKind::Expr(e) => count_decls_expr(e, &mut m),
        StmtKind::For { pat, body, .. } => {
            count_decls_pat(pat, &mut m);
            body.iter().for_each(|s| count_decls_stmt(s, &mut m));
        }
        StmtKind::Let(_, _, e, _) | StmtKind::LetMut(_, _, e, _) => count_decls_expr(e, &mut m),
        StmtKind::Assign { value, .. } => count_decls_expr(value, &mut m),
        _ => {}
    }
    let mut v: Vec<String> = m.into_keys().filter(|n| n != "_").collect();
    v.sort();
    v
}

impl<'a> Mutator<'a> {
    fn hit(&mut self, rule: Rule) -> bool {
        if self.rule != rule || self.applied {
            return false;
        }
        let now = self.seen == self.target;
        self.seen += 1;
        if now {
            self.applied = true;
        }
        now
    }

    fn declare_pat(&mut self, p: &Pat, t: &Ty) {
        match (p, t) {
            (Pat::Bind(n), _) => self.scopes.last_mut().unwrap().push(V { name: n.clone(), ty: t.clone(), mutable: false }),
            (Pat::Tuple(ps), Ty::Tuple(ts)) => {
                for (p, t) in ps.iter().zip(ts) {
                    self.declare_pat(p, t);
                }
            }
            (Pat::Struct(si, fs, _), _) => {
                let fields = self.defs.structs[*si].fields.clone();
                for (fi, p) in fs {
                    self.declare_pat(p, &fields[*fi].1);
                }
            }
            (Pat::Enum(ei, vi, ps), _) => {
                let pts = self.defs.enums[*ei].variants[*vi].1.clone();
                for (p, t) in ps.iter().zip(&pts) {
                    self.declare_pat(p, t);
                }
            }
            _ => {}
        }
    }

    fn visible_immutables(&self) -> Vec<V> {
        let mut seen = std::collections::HashSet::new();
        let mut out = vec![];
        for s in self.scopes.iter().rev() {
            for v in s.iter().rev() {
                if seen.insert(v.name.clone()) && !v.mutable && v.name != "_" {
                    out.push(v.clone());
                }
            }
        }
        out
    }

    fn refutable_for(&mut self, t: &Ty) -> Option<Pat> {
        match t {
            Ty::Bool => Some(Pat::Bool(self.rng.bool())),
            // (one value, or everything but the smallest / the largest value)
            Ty::Int(it) => Some(match self.rng.below(7) {
                0 => Pat::Int(5.min(it.max_val())),
                1 => Pat::Range(it.min_val() + 1, it.max_val(), false),
                2 => Pat::Range(it.min_val(), it.max_val() - 1, false),
                3 => Pat::Range(it.min_val(), it.max_val() - 1, true),
                // (from a small positive number up to the largest value)
                4 => Pat::Range(*self.rng.pick(&[1i128, 2, 3, 100]), it.max_val(), false),
                // (from the smallest value up to a number around zero)
                5 => Pat::Range(it.min_val(), (*self.rng.pick(&[-1i128, 0, 1, 5])).max(it.min_val()), false),
                _ => {
                    let a = self.rng.below(100) as i128;
                    Pat::Range(a, a + self.rng.below(27) as i128, false)
                }
            }),
            Ty::Enum(ei) if self.defs.enums[*ei].variants.len() >= 2 => {
                let vi = self.rng.usize_below(self.defs.enums[*ei].variants.len());
                let n = self.defs.enums[*ei].variants[vi].1.len();
                Some(Pat::Enum(*ei, vi, (0..n).map(|_| Pat::Bind("_".into())).collect()))
            }
            Ty::Tuple(ts) if !ts.is_empty() => {
                // refutable in one component
                let k = self.rng.usize_below(ts.len());
                let inner = self.refutable_for(&ts[k])?;
                Some(Pat::Tuple((0..ts.len()).map(|i| if i == k { inner.clone() } else { Pat::Bind("_".into()) }).collect()))
            }
            _ => None,
        }
    }

    fn block(&mut self, b: &mut Block) {
        self.scopes.push(vec![]);
        self.stmts(&mut b.stmts);
        if let Some(t) = b.tail.as_mut() {
            self.expr(t);
        }
        self.scopes.pop();
    }

    fn stmts(&mut self, stmts: &mut Vec<Stmt>) {
        let mut i = 0;
        while i < stmts.len() {
            let inner_decls = first_decl_in_stmt(&stmts[i]);
            {
                let (head, _) = stmts.split_at_mut(i + 1);
                let s = &mut head[i];
                self.stmt(s);
            }
            // insertion edits after statement i
            if self.rule == Rule::AssignToImmutable && !self.applied {
                let cands = self.visible_immutables();
                if !cands.is_empty() && self.hit(Rule::AssignToImmutable) {
                    let v = self.rng.pick(&cands).clone();
                    let var = ex(ExprKind::Var(v.name.clone()), v.ty.clone());
                    let stmt = match &v.ty {
                        Ty::Tuple(ts) if !ts.is_empty() && self.rng.bool() => StmtKind::Assign {
                            var: v.name.clone(),
                            accs: vec![Acc::Tuple(0)],
                            op: None,
                            value: ex(ExprKind::TupleField(Box::new(var), 0), ts[0].clone()),
                            target_ty: ts[0].clone(),
                        },
                        Ty::Array(et, _) if self.rng.bool() => StmtKind::Assign {
                            var: v.name.clone(),
                            accs: vec![Acc::Index(ex(ExprKind::Lit(Val::Int(0)), Ty::Int(ints::USIZE)))],
                            op: None,
                            value: ex(ExprKind::Index(Box::new(var), Box::new(ex(ExprKind::Lit(Val::Int(0)), Ty::Int(ints::USIZE)))), (**et).clone()),
                            target_ty: (**et).clone(),
                        },
                        Ty::Int(it) if self.rng.bool() => StmtKind::Assign {
                            var: v.name.clone(),
                            accs: vec![],
                            op: Some(BinOp::BitXor),
                            value: ex(ExprKind::Lit(Val::Int(1)), Ty::Int(*it)),
                            target_ty: v.ty.clone(),
                        },
                        _ => StmtKind::Assign { var: v.name.clone(), accs: vec![], op: None, value: var, target_ty: v.ty.clone() },
                    };
                    stmts.insert(i + 1, Stmt::new(stmt));
                    i += 1;
                }
            }
            if (self.rule == Rule::RefutableLetPattern || self.rule == Rule::RefutableForPattern) && !self.applied {
                // after `let name: T = ..` insert `let <refutable pattern>: T = name;` resp.
                // `for <refutable pattern> in [name] { }`: the only rule broken is irrefutability
                if let StmtKind::Let(Pat::Bind(name), t, _, _) = &stmts[i].kind {
                    let (name, t) = (name.clone(), t.clone());
                    if name != "_" {
                        if let Some(rp) = self.refutable_for(&t) {
                            let rule = self.rule;
                            if self.hit(rule) {
                                let var = ex(ExprKind::Var(name), t.clone());
                                let stmt = if rule == Rule::RefutableLetPattern {
                                    StmtKind::Let(rp, t.clone(), var, true)
                                } else {
                                    StmtKind::For { pat: rp, iter: ex(ExprKind::ArrayLit(vec![var]), Ty::Array(Box::new(t.clone()), 1)), body: vec![] }
                                };
                                stmts.insert(i + 1, Stmt::new(stmt));
                                i += 1;
                            }
                        }
                    }
                }
            }
            if self.rule == Rule::UseAfterScopeEnd && !self.applied {
                let unique: Vec<&String> = inner_decls.iter().filter(|n| self.decl_counts.get(*n).copied() == Some(1) && !self.fns.iter().any(|f| f.1.iter().any(|p| &p.name == *n))).collect();
                if !unique.is_empty() && self.hit(Rule::UseAfterScopeEnd) {
                    let n = (*self.rng.pick(&unique)).clone();
                    // `let q = name;` uses the variable after its scope has ended
                    stmts.insert(i + 1, Stmt::new(StmtKind::Let(Pat::Bind("_".into()), Ty::Bool, ex(ExprKind::Var(n), Ty::Bool), false)));
                    i += 1;
                }
            }
            i += 1;
        }
    }

    fn stmt(&mut self, s: &mut Stmt) {
        match &mut s.kind {
            StmtKind::Let(p, t, e, annotated) => {
                self.expr(e);
                if *annotated && self.hit(Rule::LetAnnotationType) {
                    *e = other_type_literal(t, self.rng);
                }
                if let Pat::Tuple(ps) = p {
                    if ps.len() >= 2 && self.hit(Rule::TuplePatternArity) {
                        if self.rng.bool() {
                            ps.pop();
                        } else {
                            ps.push(Pat::Bind("_".into()));
                        }
                    }
                }
                let (p, t) = (p.clone(), t.clone());
                self.declare_pat(&p, &t);
            }
            StmtKind::LetMut(n, t, e, annotated) => {
                self.expr(e);
                if *annotated && self.hit(Rule::LetAnnotationType) {
                    *e = other_type_literal(t, self.rng);
                }
                self.scopes.last_mut().unwrap().push(V { name: n.clone(), ty: t.clone(), mutable: true });
            }
            StmtKind::Assign { accs, value, .. } => {
                for a in accs.iter_mut() {
                    if let Acc::Index(i) = a {
                        self.expr(i);
                        if self.hit(Rule::IndexNotUsize) {
                            *i = ex(ExprKind::Lit(Val::Int(0)), Ty::Int(ints::U8));
                        }
                    }
                }
                self.expr(value);
            }
            StmtKind::For { pat, iter, body } => {
                self.expr(iter);
                let et = match &iter.ty {
                    Ty::Array(et, _) => (**et).clone(),
                    _ => Ty::Bool,
                };
                self.scopes.push(vec![]);
                let p = pat.clone();
                self.declare_pat(&p, &et);
                self.stmts(body);
                self.scopes.pop();
            }
            StmtKind::ForJoin { pat, a, b, body } => {
                self.expr(a);
                self.expr(b);
                let pty = match (&a.ty, &b.ty) {
                    (Ty::Array(ea, _), Ty::Array(eb, _)) => Ty::Tuple(vec![(**ea).clone(), (**eb).clone()]),
                    _ => Ty::Bool,
                };
                self.scopes.push(vec![]);
                let p = pat.clone();
                self.declare_pat(&p, &pty);
                self.stmts(body);
                self.scopes.pop();
            }
            StmtKind::Expr(e) => self.expr(e),
        }
    }

    fn expr(&mut self, e: &mut Expr) {
        let ety = e.ty.clone();
        match &mut e.kind {
            ExprKind::Lit(_) | ExprKind::Range(..) => {}
            ExprKind::Var(n) => {
                if self.hit(Rule::UnknownIdentifier) {
                    *n = "undeclared_zz".into();
                }
            }
            ExprKind::Un(op, x) => {
                self.expr(x);
                if *op == UnOp::Neg && self.hit(Rule::NegateUnsigned) {
                    **x = ex(ExprKind::Lit(Val::Int(1)), Ty::Int(ints::U8));
                }
            }
            ExprKind::Bin(op, a, b) => {
                self.expr(a);
                self.expr(b);
                match op {
                    BinOp::AndAnd | BinOp::OrOr => {
                        if self.hit(Rule::ShortCircuitOperandType) {
                            let lit = ex(ExprKind::Lit(Val::Int(1)), Ty::Int(ints::U8));
                            if self.rng.bool() {
                                **a = lit;
                            } else {
                                **b = lit;
                            }
                        }
                    }
                    BinOp::Shl | BinOp::Shr => {
                        if self.hit(Rule::ShiftAmountType) {
                            **b = ex(ExprKind::Lit(Val::Int(1)), Ty::Int(ints::U16));
                        }
                    }
                    _ => {
                        if self.hit(Rule::OperandType) {
                            let aty = a.ty.clone();
                            if self.rng.bool() {
                                **b = other_type_literal(&aty, self.rng);
                            } else {
                                let bty = b.ty.clone();
                                **a = other_type_literal(&bty, self.rng);
                            }
                        }
                    }
                }
            }
            ExprKind::Cast(x) => {
                self.expr(x);
                if self.hit(Rule::CastNonPrimitive) {
                    // cast of a tuple value
                    **x = ex(ExprKind::TupleLit(vec![ex(ExprKind::Lit(Val::Int(1)), Ty::Int(ints::U8)), ex(ExprKind::Lit(Val::Bool(true)), Ty::Bool)]), Ty::Tuple(vec![Ty::Int(ints::U8), Ty::Bool]));
                }
            }
            ExprKind::If(c, t, f) => {
                self.expr(c);
                if self.hit(Rule::ConditionNotBool) {
                    **c = ex(ExprKind::Lit(Val::Int(1)), Ty::Int(ints::U8));
                }
                self.block(t);
                self.block(f);
                if !ety.is_unit() && f.tail.is_some() && self.hit(Rule::BranchType) {
                    let which = if self.rng.bool() { t } else { f };
                    which.tail = Some(Box::new(other_type_literal(&ety, self.rng)));
                }
            }
            ExprKind::Match(s, arms) => {
                self.expr(s);
                let sty = s.ty.clone();
                for (p, b) in arms.iter_mut() {
                    self.scopes.push(vec![]);
                    let pc = p.clone();
                    self.declare_pat(&pc, &sty);
                    self.block(b);
                    self.scopes.pop();
                }
                if !ety.is_unit() && arms.len() >= 2 && self.hit(Rule::MatchArmType) {
                    let k = self.rng.usize_below(arms.len());
                    arms[k].1.tail = Some(Box::new(other_type_literal(&ety, self.rng)));
                }
                if self.hit(Rule::MatchOnArray) {
                    let lit = ex(ExprKind::Lit(Val::Int(1)), Ty::Int(ints::U8));
                    **s = ex(ExprKind::ArrayLit(vec![lit.clone(), lit]), Ty::Array(Box::new(Ty::Int(ints::U8)), 2));
                    // patterns become irrelevant: the scrutinee type does not support matching
                    for (p, _) in arms.iter_mut() {
                        *p = Pat::Bind("_".into());
                    }
                }
            }
            ExprKind::Block(b) => self.block(b),
            ExprKind::Call(fi, args) => {
                for a in args.iter_mut() {
                    self.expr(a);
                }
                if !args.is_empty() && self.hit(Rule::CallArgType) {
                    let n = args.len().min(self.fns[*fi].1.len()).max(1);
                    let k = self.rng.usize_below(n).min(args.len() - 1);
                    let pty = self.fns[*fi].1.get(k).map(|p| p.ty.clone()).unwrap_or(Ty::Bool);
                    args[k] = other_type_literal(&pty, self.rng);
                }
                if self.hit(Rule::CallArgCount) {
                    if !args.is_empty() && self.rng.bool() {
                        args.pop();
                    } else {
                        args.push(ex(ExprKind::Lit(Val::Int(1)), Ty::Int(ints::U8)));
                    }
                }
            }
            ExprKind::ArrayLit(xs) | ExprKind::TupleLit(xs) => {
                for x in xs.iter_mut() {
                    self.expr(x);
                }
            }
            ExprKind::ArrayRepeat(x, _) => self.expr(x),
            ExprKind::StructLit(_, fs) => {
                for (_, x) in fs.iter_mut() {
                    self.expr(x);
                }
                if fs.len() >= 1 && self.hit(Rule::StructFieldCount) {
                    fs.pop();
                }
            }
            ExprKind::EnumLit(_, _, xs) => {
                for x in xs.iter_mut() {
                    self.expr(x);
                }
                if !xs.is_empty() && self.hit(Rule::EnumPayloadCount) {
                    if xs.len() >= 2 && self.rng.bool() {
                        xs.pop();
                    } else {
                        let extra = xs[0].clone();
                        xs.push(extra);
                    }
                }
            }
            ExprKind::Index(b, i) => {
                self.expr(b);
                self.expr(i);
                if self.hit(Rule::IndexNotUsize) {
                    **i = ex(ExprKind::Lit(Val::Int(0)), Ty::Int(ints::U8));
                }
            }
            ExprKind::TupleField(b, _) | ExprKind::StructField(b, _) => self.expr(b),
            ExprKind::Join(a, b) => {
                self.expr(a);
                self.expr(b);
            }
        }
    }

    fn function(&mut self, f: &mut FnDef, idx: usize) {
        self.cur_fn = idx;
        self.scopes.clear();
        self.scopes.push(f.params.iter().map(|p| V { name: p.name.clone(), ty: p.ty.clone(), mutable: p.mutable }).collect());
        self.block(&mut f.body);
        if f.body.tail.is_some() && self.hit(Rule::ReturnType) {
            f.body.tail = Some(Box::new(other_type_literal(&f.ret, self.rng)));
        }
        if f.body.tail.is_some() && !f.ret.is_unit() && self.hit(Rule::DeclaredReturnType) {
            // the body keeps its value; the declared return type becomes `()` or another concrete type
            f.ret = if self.rng.bool() {
                Ty::Tuple(vec![])
            } else if f.ret == Ty::Bool {
                Ty::Int(ints::U8)
            } else {
                Ty::Bool
            };
        }
        if !f.is_pub && self.hit(Rule::DirectRecursion) {
            let args = f.params.iter().map(|p| ex(ExprKind::Var(p.name.clone()), p.ty.clone())).collect();
            let call = ex(ExprKind::Call(idx, args), f.ret.clone());
            f.body.stmts.insert(0, Stmt::new(StmtKind::Let(Pat::Bind("_".into()), f.ret.clone(), call, true)));
        }
    }
}

/// Apply the `target`-th edit of `rule`. Returns None if there is no such site
/// (`sites` receives the number of sites seen).
pub fn apply(prog: &Program, rule: Rule, target: usize, rng: &mut Rng) -> (Option<Program>, usize) {
    let mut p = prog.clone();
    let mut decl_counts = std::collections::HashMap::new();
    for f in &p.fns {
        count_decls_block(&f.body, &mut decl_counts);
        for prm in &f.params {
            *decl_counts.entry(prm.name.clone()).or_insert(0) += 1;
        }
    }
    // a name that is also a top-level constant stays known after the scope of a local of that name ended
    for (n, _, _) in &p.defs.consts {
        *decl_counts.entry(n.clone()).or_insert(0) += 1;
    }
    let fns_info: Vec<(String, Vec<Param>, Ty)> = p.fns.iter().map(|f| (f.name.clone(), f.params.clone(), f.ret.clone())).collect();
    let mut m = Mutator { rule, target, seen: 0, applied: false, rng, defs: p.defs.clone(), fns: fns_info.clone(), scopes: vec![], decl_counts, cur_fn: 0 };
    if rule == Rule::MutualRecursion {
        // f_i gets a call to f_j and f_j a call to f_i (two private helpers)
        let helpers: Vec<usize> = (0..p.fns.len()).filter(|i| !p.fns[*i].is_pub).collect();
        let mut sites = 0;
        let mut done = false;
        for a in 0..helpers.len() {
            for b in (a + 1)..helpers.len() {
                if sites == target {
                    let (i, j) = (helpers[a], helpers[b]);
                    for (x, y) in [(i, j), (j, i)] {
                        let callee = fns_info[y].clone();
                        // arguments: literals of the parameter types are not available generically;
                        // use the caller's own parameters where types fit, else skip this pair
                        let caller_params = p.fns[x].params.clone();
                        let mut args = vec![];
                        for cp in &callee.1 {
                            match caller_params.iter().find(|q| q.ty == cp.ty) {
                                Some(q) => args.push(ex(ExprKind::Var(q.name.clone()), q.ty.clone())),
                                None => args.push(zero_expr(&cp.ty, &p.defs)),
                            }
                        }
                        let call = ex(ExprKind::Call(y, args), callee.2.clone());
                        p.fns[x].body.stmts.insert(0, Stmt::new(StmtKind::Let(Pat::Bind("_".into()), callee.2.clone(), call, true)));
                    }
                    done = true;
                }
                sites += 1;
            }
        }
        return (if done { Some(p) } else { None }, sites);
    }
    for i in 0..p.fns.len() {
        let mut f = p.fns[i].clone();
        m.function(&mut f, i);
        p.fns[i] = f;
    }
    let seen = m.seen;
    (if m.applied { Some(p) } else { None }, seen)
}

/// A constructor expression of any type (all-zero-ish value).
pub fn zero_expr(t: &Ty, d: &Defs) -> Expr {
    match t {
        Ty::Bool => ex(ExprKind::Lit(Val::Bool(false)), Ty::Bool),
        Ty::Int(_) => ex(ExprKind::Lit(Val::Int(0)), t.clone()),
        Ty::Array(et, n) => ex(ExprKind::ArrayRepeat(Box::new(zero_expr(et, d)), *n), t.clone()),
        Ty::Tuple(ts) => ex(ExprKind::TupleLit(ts.iter().map(|t| zero_expr(t, d)).collect()), t.clone()),
        Ty::Struct(si) => ex(ExprKind::StructLit(*si, d.structs[*si].fields.iter().enumerate().map(|(k, (_, ft))| (k, zero_expr(ft, d))).collect()), t.clone()),
        Ty::Enum(ei) => ex(ExprKind::EnumLit(*ei, 0, d.enums[*ei].variants[0].1.iter().map(|t| zero_expr(t, d)).collect()), t.clone()),
    }
}

/// Token-level edits (names): returns the edited token list.
#[derive(Clone, Copy, Debug, PartialEq, Eq, Hash, PartialOrd, Ord)]
pub enum TokRule {
    UnknownField,
    UnknownVariant,
    UnknownTypeName,
    UnusedPrivateFn,
    PubFnWithoutParams,
    /// a public function without parameters that is called from main
    CalledPubFnWithoutParams,
    /// a const whose value names a const that is defined later
    ConstForwardReference,
    /// a const whose value names itself
    ConstSelfReference,
}

pub const TOK_RULES: [TokRule; 8] = [
    TokRule::ConstForwardReference,
    TokRule::ConstSelfReference,
    TokRule::UnknownField,
    TokRule::UnknownVariant,
    TokRule::UnknownTypeName,
    TokRule::UnusedPrivateFn,
    TokRule::PubFnWithoutParams,
    TokRule::CalledPubFnWithoutParams,
];

pub fn apply_tok(toks: &[String], defs: &Defs, rule: TokRule, target: usize) -> (Option<Vec<String>>, usize) {
    let is_ident = |t: &str| t.chars().next().map(|c| c.is_ascii_alphabetic() || c == '_').unwrap_or(false);
    let type_names: Vec<&String> = defs.structs.iter().map(|s| &s.name).chain(defs.enums.iter().map(|e| &e.name)).collect();
    let mut sites = vec![];
    match rule {
        TokRule::UnknownField => {
            for i in 1..toks.len() {
                if toks[i - 1] == "." && is_ident(&toks[i]) {
                    sites.push(i);
                }
            }
        }
        TokRule::UnknownVariant => {
            for i in 1..toks.len() {
                if toks[i - 1] == "::" && is_ident(&toks[i]) {
                    sites.push(i);
                }
            }
        }
        TokRule::UnknownTypeName => {
            for i in 0..toks.len() {
                if type_names.contains(&&toks[i]) && !(i > 0 && (toks[i - 1] == "struct" || toks[i - 1] == "enum")) {
                    sites.push(i);
                }
            }
        }
        TokRule::UnusedPrivateFn | TokRule::PubFnWithoutParams | TokRule::ConstForwardReference | TokRule::ConstSelfReference => sites.push(toks.len()),
        TokRule::CalledPubFnWithoutParams => {
            // the opening brace of main's body
            if let Some(m) = (1..toks.len()).find(|i| toks[*i] == "main" && toks[*i - 1] == "fn") {
                if let Some(b) = (m..toks.len()).find(|i| toks[*i] == "{") {
                    sites.push(b);
                }
            }
        }
    }
    if target >= sites.len() {
        return (None, sites.len());
    }
    let mut out = toks.to_vec();
    match rule {
        TokRule::UnknownField => out[sites[target]] = "nofield_zz".into(),
        TokRule::UnknownVariant => out[sites[target]] = "Vzz".into(),
        TokRule::UnknownTypeName => out[sites[target]] = "Tzz".into(),
        TokRule::UnusedPrivateFn => {
            for t in ["fn", "unused_fn_zz", "(", "a", ":", "u8", ")", "->", "u8", "{", "a", "}"] {
                out.push(t.into());
            }
        }
        TokRule::PubFnWithoutParams => {
            for t in ["pub", "fn", "noparams_zz", "(", ")", "->", "u8", "{", "1u8", "}"] {
                out.push(t.into());
            }
        }
        TokRule::ConstForwardReference => {
            for t in ["const", "fwd_a_zz", ":", "u8", "=", "max", "(", "fwd_b_zz", ",", "1u8", ")", ";", "const", "fwd_b_zz", ":", "u8", "=", "2u8", ";"] {
                out.push(t.into());
            }
        }
        TokRule::ConstSelfReference => {
            for t in ["const", "self_zz", ":", "usize", "=", "self_zz", "+", "1usize", ";"] {
                out.push(t.into());
            }
        }
        TokRule::CalledPubFnWithoutParams => {
            let at = sites[target] + 1;
            let call: Vec<String> = ["let", "_", ":", "u8", "=", "noparams_zz", "(", ")", ";"].iter().map(|t| t.to_string()).collect();
            out.splice(at..at, call);
            for t in ["pub", "fn", "noparams_zz", "(", ")", "->", "u8", "{", "1u8", "}"] {
                out.push(t.into());
            }
        }
    }
    (Some(out), sites.len())
}
