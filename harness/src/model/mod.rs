//! E1: own AST, type-directed generator, printer, reference interpreter.

pub mod ast;
pub mod exec;
pub mod gen;
pub mod interp;
pub mod mutate;
pub mod print;
pub mod ty;
