//! Reference interpreter: source-level semantics (Rust-like, by-value, checked fixed-width
//! integer arithmetic, left-to-right evaluation), written from the language guide; shares no code
//! with garble_lang.

use super::ast::*;
use super::ty::{Defs, Ty, Val};
use crate::ints::{self, Arith, BinOp, Reason};

/// A panic of the source-level execution: the acceptable (reason, span) outcomes. More than one
/// entry only where the documented semantics under-determine the order (declared leniencies).
#[derive(Clone, Debug, PartialEq)]
pub struct Panic {
    pub alts: Vec<(Reason, Span)>,
}

#[derive(Clone, Debug, PartialEq)]
pub enum Stop {
    Panic(Panic),
    /// the execution evaluated an operation instance listed as known finding (id)
    Tainted(&'static str),
    /// the reference semantics allow two different continuations here (MIN % -1)
    Ambiguous(&'static str),
    /// harness limit (step budget)
    Limit,
}

type R<T> = Result<T, Stop>;

pub struct Interp<'a> {
    pub prog: &'a Program,
    pub defs: &'a Defs,
    scopes: Vec<Vec<(String, Val)>>,
    pub steps: u64,
    pub max_steps: u64,
    /// statistics about the execution
    pub sites_evaluated: u64,
    pub branches_skipped: u64,
    /// global constants visible in every function
    pub consts: Vec<(String, Val)>,
}

fn panic1(r: Reason, s: Span) -> Stop {
    Stop::Panic(Panic { alts: vec![(r, s)] })
}

impl<'a> Interp<'a> {
    pub fn new(prog: &'a Program) -> Self {
        Interp {
            prog,
            defs: &prog.defs,
            scopes: vec![],
            steps: 0,
            max_steps: 2_000_000,
            sites_evaluated: 0,
            branches_skipped: 0,
            consts: prog.defs.consts.iter().map(|(n, _, v)| (n.clone(), v.clone())).collect(),
        }
    }

    /// Run `main` on the given arguments.
    pub fn run_main(&mut self, args: &[Val]) -> R<Val> {
        let main = self.prog.main();
        self.call(main, args.to_vec())
    }

    fn call(&mut self, f: &FnDef, args: Vec<Val>) -> R<Val> {
        let saved = std::mem::take(&mut self.scopes);
        self.scopes.push(self.consts.clone());
        self.scopes.push(f.params.iter().map(|p| p.name.clone()).zip(args).collect());
        let r = self.block(&f.body);
        self.scopes = saved;
        r
    }

    fn lookup(&self, n: &str) -> &Val {
        for s in self.scopes.iter().rev() {
            for (k, v) in s.iter().rev() {
                if k == n {
                    return v;
                }
            }
        }
        panic!("harness: unbound variable {n}");
    }

    fn lookup_mut(&mut self, n: &str) -> &mut Val {
        for s in self.scopes.iter_mut().rev() {
            for (k, v) in s.iter_mut().rev() {
                if k == n {
                    return v;
                }
            }
        }
        panic!("harness: unbound variable {n}");
    }

    fn bind(&mut self, n: &str, v: Val) {
        self.scopes.last_mut().unwrap().push((n.to_string(), v));
    }

    fn tick(&mut self) -> R<()> {
        self.steps += 1;
        if self.steps > self.max_steps {
            Err(Stop::Limit)
        } else {
            Ok(())
        }
    }

    pub fn block(&mut self, b: &Block) -> R<Val> {
        self.scopes.push(vec![]);
        let r = self.block_inner(b);
        self.scopes.pop();
        r
    }

    fn block_inner(&mut self, b: &Block) -> R<Val> {
        for s in &b.stmts {
            self.stmt(s)?;
        }
        match &b.tail {
            Some(e) => self.expr(e),
            None => Ok(Val::unit()),
        }
    }

    /// Would evaluating `e` in the current state panic? (used for the order leniencies; runs on a
    /// copy of the state)
    /// (a probe that runs into a known finding or an ambiguity makes the whole execution one: the
    /// code under test may report that operation instead of the failure that was found first)
    fn probe_panic(&mut self, e: &Expr) -> R<Option<Panic>> {
        let saved = self.scopes.clone();
        let steps = self.steps;
        let r = self.expr(e);
        self.scopes = saved;
        self.steps = steps;
        match r {
            Err(Stop::Panic(p)) => Ok(Some(p)),
            Err(other) => Err(other),
            Ok(_) => Ok(None),
        }
    }

    /// Would evaluating the place (with the state as it is now) fail? (state is restored)
    fn probe_place_panic(&mut self, var: &str, accs: &[Acc], span: Span) -> R<Option<Panic>> {
        let saved = self.scopes.clone();
        let steps = self.steps;
        let r = self.eval_place(var, accs, span);
        self.scopes = saved;
        self.steps = steps;
        match r {
            Err(Stop::Panic(p)) => Ok(Some(p)),
            Err(other) => Err(other),
            Ok(_) => Ok(None),
        }
    }

    fn stmt(&mut self, s: &Stmt) -> R<()> {
        self.tick()?;
        match &s.kind {
            StmtKind::Let(p, _, e, _) => {
                let v = self.expr(e)?;
                if !self.match_pat(p, &v, true) {
                    panic!("harness: refutable let pattern generated");
                }
                Ok(())
            }
            StmtKind::LetMut(n, _, e, _) => {
                let v = self.expr(e)?;
                self.bind(n, v);
                Ok(())
            }
            StmtKind::Assign { var, accs, op, value, target_ty } => {
                // Garble's documented lowering: place (index expressions + bounds checks) first,
                // then the value; Rust: value first. If both fail either is acceptable.
                let span = s.span.get();
                if op.is_none() {
                    // plain assignment: the value is evaluated before the place (as in Rust, and as
                    // the lowering does since fix "value before place"); if both fail, either
                    // failure is acceptable
                    let rhs = match self.expr(value) {
                        Ok(v) => v,
                        Err(Stop::Panic(mut p)) => {
                            if let Some(pp) = self.probe_place_panic(var, accs, span)? {
                                for a in pp.alts {
                                    if !p.alts.contains(&a) {
                                        p.alts.push(a);
                                    }
                                }
                            }
                            return Err(Stop::Panic(p));
                        }
                        Err(e) => return Err(e),
                    };
                    let path = self.eval_place(var, accs, span)?;
                    let slot = self.lookup_mut(var);
                    let mut cur: &mut Val = slot;
                    for k in &path {
                        cur = match cur {
                            Val::Array(v) | Val::Tuple(v) | Val::Struct(v) => &mut v[*k],
                            _ => panic!("harness: path into non-collection"),
                        };
                    }
                    *cur = rhs;
                    return Ok(());
                }
                let place = self.eval_place(var, accs, span);
                let path = match place {
                    Ok(p) => p,
                    Err(Stop::Panic(mut p)) => {
                        // compound assignment: all index expressions are evaluated (once) before the
                        // bounds checks of the place, so a failing later index expression may be
                        // reported instead of an earlier out-of-bounds index
                        for a in accs {
                            if let Acc::Index(i) = a {
                                if let Some(pi) = self.probe_panic(i)? {
                                    for alt in pi.alts {
                                        if !p.alts.contains(&alt) {
                                            p.alts.push(alt);
                                        }
                                    }
                                }
                            }
                        }
                        if let Some(pv) = self.probe_panic(value)? {
                            for a in pv.alts {
                                if !p.alts.contains(&a) {
                                    p.alts.push(a);
                                }
                            }
                        }
                        return Err(Stop::Panic(p));
                    }
                    Err(e) => return Err(e),
                };
                // `place op= e` is `place = place op e`: the old value of the place is the left
                // operand and is read before `e` is evaluated (Appendix A of DESIGN.md)
                let cur = if op.is_some() { Some(self.read_path(var, &path)) } else { None };
                let rhs = self.expr(value)?;
                let newv = match op {
                    None => rhs,
                    Some(op) => {
                        self.sites_evaluated += 1;
                        self.apply_bin(*op, target_ty, value, &cur.unwrap(), &rhs, None, span)?
                    }
                };
                let slot = self.lookup_mut(var);
                let mut cur: &mut Val = slot;
                for k in &path {
                    cur = match cur {
                        Val::Array(v) | Val::Tuple(v) | Val::Struct(v) => &mut v[*k],
                        _ => panic!("harness: path into non-collection"),
                    };
                }
                *cur = newv;
                Ok(())
            }
            StmtKind::For { pat, iter, body } => {
                let arr = self.expr(iter)?;
                for el in arr.elems().clone() {
                    self.scopes.push(vec![]);
                    if !self.match_pat(pat, &el, true) {
                        panic!("harness: refutable for pattern generated");
                    }
                    let mut r = Ok(());
                    for st in body {
                        r = self.stmt(st);
                        if r.is_err() {
                            break;
                        }
                    }
                    self.scopes.pop();
                    r?;
                }
                Ok(())
            }
            StmtKind::ForJoin { pat, a, b, body } => {
                let va = self.expr(a)?;
                let vb = self.expr(b)?;
                // once per pair of equal keys (first tuple field), ascending key order
                let key = |v: &Val| -> Val { v.elems()[0].clone() };
                let mut pairs: Vec<(Val, Val, Val)> = vec![];
                for x in va.elems() {
                    for y in vb.elems() {
                        if key(x) == key(y) {
                            pairs.push((key(x), x.clone(), y.clone()));
                        }
                    }
                }
                pairs.sort_by(|p, q| cmp_key(&p.0, &q.0));
                for (_, x, y) in pairs {
                    self.scopes.push(vec![]);
                    if !self.match_pat(pat, &Val::Tuple(vec![x, y]), true) {
                        panic!("harness: refutable join pattern generated");
                    }
                    let mut r = Ok(());
                    for st in body {
                        r = self.stmt(st);
                        if r.is_err() {
                            break;
                        }
                    }
                    self.scopes.pop();
                    r?;
                }
                Ok(())
            }
            StmtKind::Expr(e) => {
                self.expr(e)?;
                Ok(())
            }
        }
    }

    /// Evaluate the accessor chain to a concrete path; index out of range panics at `span`.
    fn eval_place(&mut self, var: &str, accs: &[Acc], span: Span) -> R<Vec<usize>> {
        let mut path = vec![];
        // we need the lengths: walk a clone of the value
        let mut cur = self.lookup(var).clone();
        for a in accs {
            let k = match a {
                Acc::Index(i) => {
                    let iv = self.expr(i)?.as_int();
                    let len = cur.elems().len() as i128;
                    self.sites_evaluated += 1;
                    if iv < 0 || iv >= len {
                        return Err(panic1(Reason::OutOfBounds, span));
                    }
                    iv as usize
                }
                Acc::Tuple(k) => *k,
                Acc::Field(_, fi) => *fi,
            };
            cur = cur.elems()[k].clone();
            path.push(k);
        }
        Ok(path)
    }

    fn read_path(&self, var: &str, path: &[usize]) -> Val {
        let mut cur = self.lookup(var);
        for k in path {
            cur = &cur.elems()[*k];
        }
        cur.clone()
    }

    fn apply_bin(&mut self, op: BinOp, ty: &Ty, rhs_expr: &Expr, a: &Val, b: &Val, lhs_expr: Option<&Expr>, span: Span) -> R<Val> {
        match ty {
            Ty::Bool => {
                let (x, y) = (a.as_bool(), b.as_bool());
                Ok(Val::Bool(match op {
                    BinOp::BitAnd => x & y,
                    BinOp::BitOr => x | y,
                    BinOp::BitXor => x ^ y,
                    _ => panic!("harness: bool op {op:?}"),
                }))
            }
            Ty::Int(t) => {
                let (x, y) = (a.as_int(), b.as_int());
                // KF-C03-1: multiplication by a small negative literal
                if op == BinOp::Mul {
                    if let ExprKind::Lit(Val::Int(c)) = &rhs_expr.kind {
                        if ints::kf_negconst_mul(*t, *c, x) {
                            return Err(Stop::Tainted("KF-C03-1"));
                        }
                    }
                    if let Some(ExprKind::Lit(Val::Int(c))) = lhs_expr.map(|e| &e.kind) {
                        if ints::kf_negconst_mul(*t, *c, y) {
                            return Err(Stop::Tainted("KF-C03-1"));
                        }
                    }
                }
                match ints::binop(op, *t, x, y) {
                    Arith::Val(v) => Ok(Val::Int(v)),
                    Arith::Panic(r) => Err(panic1(r, span)),
                    Arith::Either(_, _) => Err(Stop::Ambiguous("MIN % -1")),
                }
            }
            _ => panic!("harness: arithmetic on {ty:?}"),
        }
    }

    pub fn expr(&mut self, e: &Expr) -> R<Val> {
        self.tick()?;
        let span = e.span.get();
        match &e.kind {
            ExprKind::Lit(v) => Ok(v.clone()),
            ExprKind::Var(n) => Ok(self.lookup(n).clone()),
            ExprKind::Un(op, x) => {
                let v = self.expr(x)?;
                match (op, &e.ty) {
                    (UnOp::Not, Ty::Bool) => Ok(Val::Bool(!v.as_bool())),
                    (UnOp::Not, Ty::Int(t)) => Ok(Val::Int(ints::not(*t, v.as_int()))),
                    (UnOp::Neg, Ty::Int(t)) => {
                        self.sites_evaluated += 1;
                        match ints::neg(*t, v.as_int()) {
                            Arith::Val(r) => Ok(Val::Int(r)),
                            Arith::Panic(r) => Err(panic1(r, span)),
                            Arith::Either(..) => unreachable!(),
                        }
                    }
                    _ => panic!("harness: unary op on {:?}", e.ty),
                }
            }
            ExprKind::Bin(op, a, b) => match op {
                BinOp::AndAnd => {
                    if !self.expr(a)?.as_bool() {
                        self.branches_skipped += 1;
                        return Ok(Val::Bool(false));
                    }
                    self.expr(b)
                }
                BinOp::OrOr => {
                    if self.expr(a)?.as_bool() {
                        self.branches_skipped += 1;
                        return Ok(Val::Bool(true));
                    }
                    self.expr(b)
                }
                BinOp::Eq | BinOp::Ne => {
                    let x = self.expr(a)?;
                    let y = self.expr(b)?;
                    Ok(Val::Bool((x == y) == (*op == BinOp::Eq)))
                }
                BinOp::Lt | BinOp::Gt | BinOp::Le | BinOp::Ge => {
                    let x = self.expr(a)?.as_int();
                    let y = self.expr(b)?.as_int();
                    Ok(Val::Bool(match op {
                        BinOp::Lt => x < y,
                        BinOp::Gt => x > y,
                        BinOp::Le => x <= y,
                        _ => x >= y,
                    }))
                }
                BinOp::Shl | BinOp::Shr => {
                    let x = self.expr(a)?.as_int();
                    let y = self.expr(b)?.as_int();
                    self.sites_evaluated += 1;
                    match ints::binop(*op, a.ty.int(), x, y) {
                        Arith::Val(v) => Ok(Val::Int(v)),
                        Arith::Panic(r) => Err(panic1(r, span)),
                        Arith::Either(..) => unreachable!(),
                    }
                }
                _ => {
                    let x = self.expr(a)?;
                    let y = self.expr(b)?;
                    self.sites_evaluated += 1;
                    self.apply_bin(*op, &e.ty, b, &x, &y, Some(a), span)
                }
            },
            ExprKind::Cast(x) => {
                let v = self.expr(x)?;
                Ok(match (&x.ty, &e.ty) {
                    (Ty::Bool, Ty::Bool) => v,
                    (Ty::Bool, Ty::Int(_)) => Val::Int(v.as_bool() as i128),
                    (Ty::Int(_), Ty::Bool) => Val::Bool(v.as_int() & 1 == 1),
                    (Ty::Int(f), Ty::Int(t)) => Val::Int(ints::cast(*f, *t, v.as_int())),
                    _ => panic!("harness: cast between non-primitive types"),
                })
            }
            ExprKind::If(c, t, f) => {
                self.branches_skipped += 1;
                if self.expr(c)?.as_bool() {
                    self.block(t)
                } else {
                    self.block(f)
                }
            }
            ExprKind::Match(s, arms) => {
                let v = self.expr(s)?;
                for (p, body) in arms {
                    self.scopes.push(vec![]);
                    if self.match_pat(p, &v, true) {
                        self.branches_skipped += arms.len() as u64 - 1;
                        let r = self.block(body);
                        self.scopes.pop();
                        return r;
                    }
                    self.scopes.pop();
                }
                panic!("harness: generated match is not exhaustive for {v:?}");
            }
            ExprKind::Block(b) => self.block(b),
            ExprKind::Call(fi, args) => {
                let mut vals = Vec::with_capacity(args.len());
                for a in args {
                    vals.push(self.expr(a)?);
                }
                let f = &self.prog.fns[*fi];
                self.call(f, vals)
            }
            ExprKind::ArrayLit(es) | ExprKind::TupleLit(es) => {
                let mut vals = Vec::with_capacity(es.len());
                for a in es {
                    vals.push(self.expr(a)?);
                }
                Ok(if matches!(e.kind, ExprKind::ArrayLit(_)) { Val::Array(vals) } else { Val::Tuple(vals) })
            }
            ExprKind::ArrayRepeat(x, n) => {
                let v = self.expr(x)?;
                Ok(Val::Array(vec![v; *n]))
            }
            ExprKind::Range(lo, hi) => Ok(Val::Array((*lo..*hi).map(|v| Val::Int(v as i128)).collect())),
            ExprKind::StructLit(si, fields) => {
                // documented: fields are sorted by name at parse time, i.e. evaluated in name order;
                // Rust evaluates in written order. If evaluation panics, both orders' first panics
                // are acceptable.
                let sd = &self.defs.structs[*si];
                let name_order = sd.layout_order();
                let written: Vec<usize> = fields.iter().map(|(fi, _)| *fi).collect();
                let differs = name_order != written;
                let pre = if differs { Some((self.scopes.clone(), self.steps)) } else { None };
                let mut vals: Vec<Option<Val>> = vec![None; sd.fields.len()];
                let mut result: R<()> = Ok(());
                for fi in &name_order {
                    let (_, ex) = fields.iter().find(|(k, _)| k == fi).expect("harness: missing field");
                    match self.expr(ex) {
                        Ok(v) => vals[*fi] = Some(v),
                        Err(st) => {
                            result = Err(st);
                            break;
                        }
                    }
                }
                match result {
                    Ok(()) => Ok(Val::Struct(vals.into_iter().map(|v| v.unwrap()).collect())),
                    Err(Stop::Panic(mut p)) => {
                        if let Some((scopes, steps)) = pre {
                            let after = std::mem::replace(&mut self.scopes, scopes);
                            let st = self.steps;
                            self.steps = steps;
                            for (_, ex) in fields {
                                match self.expr(ex) {
                                    Ok(_) => {}
                                    Err(Stop::Panic(q)) => {
                                        for a in q.alts {
                                            if !p.alts.contains(&a) {
                                                p.alts.push(a);
                                            }
                                        }
                                        break;
                                    }
                                    Err(_) => break,
                                }
                            }
                            self.scopes = after;
                            self.steps = st;
                        }
                        Err(Stop::Panic(p))
                    }
                    Err(o) => Err(o),
                }
            }
            ExprKind::EnumLit(_, vi, args) => {
                let mut vals = Vec::with_capacity(args.len());
                for a in args {
                    vals.push(self.expr(a)?);
                }
                Ok(Val::Enum(*vi, vals))
            }
            ExprKind::Index(b, i) => {
                let arr = self.expr(b)?;
                let iv = self.expr(i)?.as_int();
                self.sites_evaluated += 1;
                let es = arr.elems();
                if iv < 0 || iv >= es.len() as i128 {
                    return Err(panic1(Reason::OutOfBounds, span));
                }
                Ok(es[iv as usize].clone())
            }
            ExprKind::TupleField(b, k) => {
                let v = self.expr(b)?;
                Ok(v.elems()[*k].clone())
            }
            ExprKind::StructField(b, fi) => {
                let v = self.expr(b)?;
                Ok(v.elems()[*fi].clone())
            }
            ExprKind::Join(a, b) => {
                let va = self.expr(a)?;
                let vb = self.expr(b)?;
                Ok(join_reference(&va, &vb, &a.ty, &b.ty))
            }
        }
    }

    /// Pattern matching; binds variables into the current innermost scope when `bind`.
    pub fn match_pat(&mut self, p: &Pat, v: &Val, bind: bool) -> bool {
        match (p, v) {
            (Pat::Bind(n), _) => {
                if bind {
                    self.bind(n, v.clone());
                }
                true
            }
            (Pat::Bool(b), Val::Bool(x)) => b == x,
            (Pat::Int(k), Val::Int(x)) => k == x,
            (Pat::Range(lo, hi, _), Val::Int(x)) => lo <= x && x <= hi,
            (Pat::Tuple(ps), Val::Tuple(vs)) => {
                // all sub-patterns are tried (bindings of a failed match are discarded by the caller)
                ps.iter().zip(vs).all(|(p, v)| self.match_pat(p, v, bind))
            }
            (Pat::Struct(_, fields, _), Val::Struct(vs)) => fields.iter().all(|(fi, p)| self.match_pat(p, &vs[*fi], bind)),
            (Pat::Enum(_, vi, ps), Val::Enum(vv, payload)) => vi == vv && ps.iter().zip(payload).all(|(p, v)| self.match_pat(p, v, bind)),
            _ => panic!("harness: pattern {p:?} applied to {v:?}"),
        }
    }
}

fn cmp_key(a: &Val, b: &Val) -> std::cmp::Ordering {
    match (a, b) {
        (Val::Int(x), Val::Int(y)) => x.cmp(y),
        (Val::Bool(x), Val::Bool(y)) => x.cmp(y),
        (Val::Tuple(x), Val::Tuple(y)) | (Val::Array(x), Val::Array(y)) | (Val::Struct(x), Val::Struct(y)) => {
            for (p, q) in x.iter().zip(y) {
                let c = cmp_key(p, q);
                if c != std::cmp::Ordering::Equal {
                    return c;
                }
            }
            std::cmp::Ordering::Equal
        }
        _ => std::cmp::Ordering::Equal,
    }
}

/// Reference result of `join(a, b)` as a canonical array: flagged matching entries first is NOT
/// required by the property, so callers compare as multiset (see C13). This returns the matches in
/// ascending key order followed by zero entries; length n + m - 1.
pub fn join_reference(a: &Val, b: &Val, ta: &Ty, tb: &Ty) -> Val {
    let (Ty::Array(ea, n), Ty::Array(eb, m)) = (ta, tb) else { panic!("harness: join of non-arrays") };
    let with_assoc = matches!(**ea, Ty::Tuple(_));
    let key = |v: &Val| -> Val { if with_assoc { v.elems()[0].clone() } else { v.clone() } };
    let mut out = vec![];
    let mut seen: Vec<Val> = vec![];
    for x in a.elems() {
        if seen.contains(&key(x)) {
            continue;
        }
        if let Some(y) = b.elems().iter().find(|y| key(y) == key(x)) {
            seen.push(key(x));
            out.push(if with_assoc { Val::Tuple(vec![Val::Bool(true), x.clone(), y.clone()]) } else { Val::Tuple(vec![Val::Bool(true), x.clone()]) });
        }
    }
    let zero_a = zero_of(ea);
    let zero_b = zero_of(eb);
    while out.len() < n + m - 1 {
        out.push(if with_assoc { Val::Tuple(vec![Val::Bool(false), zero_a.clone(), zero_b.clone()]) } else { Val::Tuple(vec![Val::Bool(false), zero_a.clone()]) });
    }
    Val::Array(out)
}

/// The all-zero-bits value of a type (enum: first variant with zero payload).
pub fn zero_of(t: &Ty) -> Val {
    match t {
        Ty::Bool => Val::Bool(false),
        Ty::Int(_) => Val::Int(0),
        Ty::Array(e, n) => Val::Array(vec![zero_of(e); *n]),
        Ty::Tuple(ts) => Val::Tuple(ts.iter().map(zero_of).collect()),
        // struct / enum zero values need the defs; joins are only generated over primitive tuples
        Ty::Struct(_) | Ty::Enum(_) => panic!("harness: zero_of on named type"),
    }
}

#[allow(unused)]
fn _d(_: &Defs) {}
