//! Printer: emits a token list and assigns to every node the span (first token, last token) that
//! garble's parser will assign to it as `MetaInfo` (rules read off parse.rs; parentheses do not
//! count, `s.f` gets the span of `f` only, struct literals the span of their name, enum literals
//! `E::V` without the arguments, statements `let`/target .. end of value).

use super::ast::*;
use super::ty::{Defs, Ty, Val};
use crate::ints::BinOp;

pub struct Printer<'a> {
    pub toks: Vec<String>,
    defs: &'a Defs,
    fns: &'a [FnDef],
    /// deterministic style choices
    style: u64,
    head_depth: u32,
    /// C05 "inference" mode: percentage of integer literals printed without suffix and of
    /// let annotations dropped
    pub drop_suffix_pct: u64,
    pub drop_annot_pct: u64,
    /// > 0 while printing the initializer of a let whose annotation was dropped: generator mask
    /// for known finding KF-C05-1 (literals there keep their suffix)
    force_suffix: u32,
    /// set just before printing an expression whose type the checker knows from the context (the
    /// initializer of an annotated let, the value of an assignment, a call argument): a range may
    /// then be printed without any suffix
    typed_ctx: bool,
    /// no token of the current expression statement has been printed yet (a conditional that opens
    /// an expression statement ends it: `if c { a } else { b } * 3;` is a parse error)
    at_stmt_start: bool,
}

fn is_atom(e: &Expr) -> bool {
    matches!(
        e.kind,
        ExprKind::Lit(_)
            | ExprKind::Var(_)
            | ExprKind::Call(..)
            | ExprKind::ArrayLit(_)
            | ExprKind::ArrayRepeat(..)
            | ExprKind::TupleLit(_)
            | ExprKind::EnumLit(..)
            | ExprKind::Index(..)
            | ExprKind::TupleField(..)
            | ExprKind::StructField(..)
            | ExprKind::Join(..)
    )
}

fn is_postfix_base(e: &Expr) -> bool {
    matches!(
        e.kind,
        ExprKind::Var(_) | ExprKind::Call(..) | ExprKind::ArrayLit(_) | ExprKind::ArrayRepeat(..) | ExprKind::TupleLit(_) | ExprKind::Index(..) | ExprKind::TupleField(..) | ExprKind::StructField(..) | ExprKind::Join(..)
    )
}

impl<'a> Printer<'a> {
    pub fn new(defs: &'a Defs, fns: &'a [FnDef], style: u64) -> Self {
        Printer { toks: vec![], defs, fns, style, head_depth: 0, drop_suffix_pct: 0, drop_annot_pct: 0, force_suffix: 0, typed_ctx: false, at_stmt_start: false }
    }

    fn emit(&mut self, t: &str) -> u32 {
        self.at_stmt_start = false;
        self.toks.push(t.to_string());
        (self.toks.len() - 1) as u32
    }

    fn choice(&mut self, n: u64) -> u64 {
        self.style = self.style.wrapping_mul(6364136223846793005).wrapping_add(1442695040888963407);
        (self.style >> 33) % n
    }

    fn ty(&mut self, t: &Ty) -> u32 {
        let mut v = vec![];
        t.tokens(self.defs, &mut v);
        let mut last = 0;
        for tok in v {
            last = self.emit(&tok);
        }
        last
    }

    fn lit(&mut self, v: &Val, ty: &Ty) -> Span {
        let text = match (v, ty) {
            (Val::Bool(b), _) => b.to_string(),
            (Val::Int(x), Ty::Int(_)) if self.drop_suffix_pct > 0 && self.force_suffix == 0 && self.choice(100) < self.drop_suffix_pct => x.to_string(),
            (Val::Int(x), Ty::Int(t)) => t.lit(*x),
            _ => panic!("harness: non-primitive literal"),
        };
        let i = self.emit(&text);
        (i, i)
    }

    /// An integer literal without its type suffix.
    fn bare_lit(&mut self, e: &Expr) -> Span {
        let ExprKind::Lit(Val::Int(v)) = &e.kind else { panic!("harness: bare_lit on a non-literal") };
        let i = self.emit(&v.to_string());
        e.span.set((i, i));
        (i, i)
    }

    /// print as an operand: parenthesised unless atomic
    fn operand(&mut self, e: &Expr) -> Span {
        if is_atom(e) {
            self.expr(e)
        } else {
            self.emit("(");
            let s = self.expr(e);
            self.emit(")");
            s
        }
    }

    /// Operand of a binary operator: a nested binary operation is printed without parentheses (in
    /// half of the cases) where Rust's precedence and left associativity make them redundant, so that
    /// the meaning of un-parenthesised operator chains is exercised too.
    fn bin_operand(&mut self, child: &Expr, parent: crate::ints::BinOp, left: bool) -> Span {
        use crate::ints::BinOp::*;
        fn prec(op: crate::ints::BinOp) -> u8 {
            match op {
                OrOr => 1,
                AndAnd => 2,
                Eq | Ne | Lt | Gt | Le | Ge => 3,
                BitOr => 5,
                BitXor => 6,
                BitAnd => 7,
                Shl | Shr => 8,
                Add | Sub => 9,
                Mul | Div | Rem => 10,
            }
        }
        let redundant = match &child.kind {
            ExprKind::Bin(cop, ..) => {
                let (cp, pp) = (prec(*cop), prec(parent));
                // comparisons do not chain (Rust rejects `a == b < c`): always parenthesised
                cp > pp || (cp == pp && left && pp != 3)
            }
            _ => false,
        };
        // a conditional is a primary expression: `if a { 1 } else if b { 2 } else { 3 } + 4` is the
        // sum of the whole conditional and 4 (outside of heads only, see `head`)
        let bare_conditional = matches!(child.kind, ExprKind::If(..) | ExprKind::Match(..)) && self.head_depth == 0 && !child.ty.is_unit() && !(left && self.at_stmt_start);
        if (redundant && self.choice(2) == 0) || (bare_conditional && self.choice(3) == 0) {
            self.expr(child)
        } else {
            self.operand(child)
        }
    }

    fn postfix_base(&mut self, e: &Expr) -> Span {
        if is_postfix_base(e) {
            self.expr(e)
        } else {
            self.emit("(");
            let s = self.expr(e);
            self.emit(")");
            s
        }
    }

    fn index_tokens(&mut self, idx: &Expr) {
        self.emit("[");
        match &idx.kind {
            ExprKind::Lit(Val::Int(v)) if *v >= 0 && idx.ty == Ty::Int(crate::ints::USIZE) && self.choice(2) == 0 => {
                // suffix-free constant index: the parser turns it into a usize literal
                let i = self.emit(&v.to_string());
                idx.span.set((i, i));
            }
            _ => {
                self.expr(idx);
            }
        }
    }

    /// The condition of an `if`, the scrutinee of a `match`, the iterated expression of a `for`.
    /// garble's parser re-enables struct literals for the rest of a head once a nested `if` /
    /// `match` head has been parsed, so `.. x {` would then be read as a struct literal `x { ..`:
    /// a head that contains conditionals / blocks, or any nested head, is parenthesised.
    fn head(&mut self, e: &Expr) -> Span {
        fn simple(e: &Expr) -> bool {
            match &e.kind {
                ExprKind::Lit(_) | ExprKind::Var(_) | ExprKind::Range(..) => true,
                ExprKind::Un(_, x) | ExprKind::Cast(x) | ExprKind::TupleField(x, _) | ExprKind::StructField(x, _) | ExprKind::ArrayRepeat(x, _) => simple(x),
                ExprKind::Bin(_, a, b) | ExprKind::Index(a, b) | ExprKind::Join(a, b) => simple(a) && simple(b),
                ExprKind::Call(_, xs) | ExprKind::ArrayLit(xs) | ExprKind::TupleLit(xs) | ExprKind::EnumLit(_, _, xs) => xs.iter().all(simple),
                ExprKind::StructLit(..) | ExprKind::If(..) | ExprKind::Match(..) | ExprKind::Block(_) => false,
            }
        }
        self.head_depth += 1;
        // generator mask for KF-C05-1: the scrutinee of a match and the iterated array of a for
        // loop are bound to variables by patterns, so their literals keep their suffixes
        self.force_suffix += 1;
        let s = if self.head_depth == 1 && simple(e) {
            self.expr(e)
        } else {
            self.emit("(");
            let s = self.expr(e);
            self.emit(")");
            s
        };
        self.head_depth -= 1;
        self.force_suffix -= 1;
        s
    }

    pub fn expr(&mut self, e: &Expr) -> Span {
        let typed_ctx = std::mem::take(&mut self.typed_ctx);
        let span = match &e.kind {
            ExprKind::Lit(v) => self.lit(v, &e.ty),
            ExprKind::Var(n) => {
                let i = self.emit(n);
                (i, i)
            }
            ExprKind::Un(op, x) => {
                let i = self.emit(match op {
                    UnOp::Neg => "-",
                    UnOp::Not => "!",
                });
                let s = self.operand(x);
                (i, s.1)
            }
            ExprKind::Bin(op, a, b) => {
                // An integer literal that is a direct operand next to a non-literal operand gets its
                // type from that operand, so its suffix is redundant; it is dropped in a third of the
                // cases (not for the left operand of a shift, whose type comes from the context, not
                // for && / ||, and not for negative factors, see known finding KF-C03-1).
                let is_int_lit = |e: &Expr| matches!(e.kind, ExprKind::Lit(Val::Int(_)));
                let neg_factor = |e: &Expr| *op == crate::ints::BinOp::Mul && matches!(e.kind, ExprKind::Lit(Val::Int(v)) if v < 0);
                let logical = matches!(op, crate::ints::BinOp::AndAnd | crate::ints::BinOp::OrOr);
                let bare_a = is_int_lit(a) && !is_int_lit(b) && !logical && !op.is_shift() && !neg_factor(a) && self.force_suffix == 0 && self.choice(3) == 0;
                let bare_b = is_int_lit(b) && !is_int_lit(a) && !logical && !neg_factor(b) && self.force_suffix == 0 && self.choice(3) == 0;
                let sa = if bare_a { self.bare_lit(a) } else { self.bin_operand(a, *op, true) };
                self.emit(op.sym());
                let sb = if bare_b { self.bare_lit(b) } else { self.bin_operand(b, *op, false) };
                (sa.0, sb.1)
            }
            ExprKind::Cast(x) => {
                let s = self.operand(x);
                self.emit("as");
                let t = self.ty(&e.ty);
                (s.0, t)
            }
            ExprKind::If(c, t, f) => {
                let i0 = self.emit("if");
                self.head(c);
                self.emit("{");
                self.block_body(t);
                let mut last = self.emit("}");
                let omit_else = f.stmts.is_empty() && f.tail.is_none() && self.choice(2) == 0;
                // an else block that consists of a conditional only is written as `else if` half of the time
                let else_if = match (&f.stmts[..], &f.tail) {
                    ([], Some(t)) if matches!(t.kind, ExprKind::If(..)) && self.choice(2) == 0 => Some(t),
                    _ => None,
                };
                if let Some(nested) = else_if {
                    self.emit("else");
                    last = self.expr(nested).1;
                } else if !omit_else {
                    self.emit("else");
                    self.emit("{");
                    self.block_body(f);
                    last = self.emit("}");
                }
                (i0, last)
            }
            ExprKind::Match(s, arms) => {
                let i0 = self.emit("match");
                self.head(s);
                self.emit("{");
                for (p, b) in arms {
                    self.pat(p, &s.ty);
                    self.emit("=>");
                    self.emit("{");
                    self.block_body(b);
                    self.emit("}");
                    if self.choice(4) != 0 {
                        self.emit(",");
                    }
                }
                let last = self.emit("}");
                (i0, last)
            }
            ExprKind::Block(b) => {
                let i0 = self.emit("{");
                self.block_body(b);
                let i1 = self.emit("}");
                (i0, i1)
            }
            ExprKind::Call(f, args) => {
                let name = self.fns[*f].name.clone();
                let i0 = self.emit(&name);
                self.emit("(");
                for (k, a) in args.iter().enumerate() {
                    if k > 0 {
                        self.emit(",");
                    }
                    self.typed_ctx = true;
                    self.expr(a);
                }
                let i1 = self.emit(")");
                (i0, i1)
            }
            ExprKind::ArrayLit(es) => {
                let i0 = self.emit("[");
                for (k, a) in es.iter().enumerate() {
                    if k > 0 {
                        self.emit(",");
                    }
                    self.expr(a);
                }
                let i1 = self.emit("]");
                (i0, i1)
            }
            ExprKind::ArrayRepeat(x, n) => {
                let i0 = self.emit("[");
                self.expr(x);
                self.emit(";");
                let n = if self.choice(2) == 0 { n.to_string() } else { format!("{n}usize") };
                self.emit(&n);
                let i1 = self.emit("]");
                (i0, i1)
            }
            ExprKind::Range(lo, hi) => {
                let Ty::Array(et, _) = &e.ty else { panic!("harness: range type") };
                let t = et.int();
                // one suffix is enough for the parser, the context gives the type if there is none
                let style = if self.force_suffix > 0 { 0 } else { self.choice(if typed_ctx { 4 } else { 3 }) };
                let i0 = self.emit(&if style == 2 || style == 3 { lo.to_string() } else { t.lit(*lo as i128) });
                self.emit("..");
                let i1 = self.emit(&if style == 1 || style == 3 { hi.to_string() } else { t.lit(*hi as i128) });
                (i0, i1)
            }
            ExprKind::TupleLit(es) => {
                let i0 = self.emit("(");
                for (k, a) in es.iter().enumerate() {
                    if k > 0 {
                        self.emit(",");
                    }
                    self.expr(a);
                }
                let i1 = self.emit(")");
                (i0, i1)
            }
            ExprKind::StructLit(si, fields) => {
                let sd = &self.defs.structs[*si];
                let name = sd.name.clone();
                let i0 = self.emit(&name);
                self.emit("{");
                for (k, (fi, v)) in fields.iter().enumerate() {
                    if k > 0 {
                        self.emit(",");
                    }
                    let fname = self.defs.structs[*si].fields[*fi].0.clone();
                    // shorthand `S { a }` when the value is the variable `a`
                    if matches!(&v.kind, ExprKind::Var(n) if *n == fname) {
                        let i = self.emit(&fname);
                        v.span.set((i, i));
                    } else {
                        self.emit(&fname);
                        self.emit(":");
                        self.expr(v);
                    }
                }
                if self.choice(3) == 0 && !fields.is_empty() {
                    self.emit(",");
                }
                self.emit("}");
                (i0, i0)
            }
            ExprKind::EnumLit(ei, vi, args) => {
                let ed = &self.defs.enums[*ei];
                let (en, vn) = (ed.name.clone(), ed.variants[*vi].0.clone());
                let i0 = self.emit(&en);
                self.emit("::");
                let i2 = self.emit(&vn);
                if !args.is_empty() {
                    self.emit("(");
                    for (k, a) in args.iter().enumerate() {
                        if k > 0 {
                            self.emit(",");
                        }
                        self.expr(a);
                    }
                    self.emit(")");
                }
                (i0, i2)
            }
            ExprKind::Index(b, i) => {
                // generator mask for KF-C05-1: a value that is projected out of an aggregate gets
                // its type only at the projection, not inside the aggregate
                self.force_suffix += 1;
                let sb = self.postfix_base(b);
                self.force_suffix -= 1;
                self.index_tokens(i);
                let i1 = self.emit("]");
                (sb.0, i1)
            }
            ExprKind::TupleField(b, k) => {
                // generator mask for KF-C05-1: a value that is projected out of an aggregate gets
                // its type only at the projection, not inside the aggregate
                self.force_suffix += 1;
                let sb = self.postfix_base(b);
                self.force_suffix -= 1;
                self.emit(".");
                let i1 = self.emit(&k.to_string());
                (sb.0, i1)
            }
            ExprKind::StructField(b, fi) => {
                let Ty::Struct(si) = &b.ty else { panic!("harness: struct field on non-struct") };
                let fname = self.defs.structs[*si].fields[*fi].0.clone();
                self.force_suffix += 1;
                let sb = self.postfix_base(b);
                self.force_suffix -= 1;
                self.emit(".");
                let i1 = self.emit(&fname);
                // (the location of a field access starts at its receiver, like that of every other
                // postfix expression)
                (sb.0, i1)
            }
            ExprKind::Join(a, b) => {
                let i0 = self.emit("join");
                self.emit("(");
                self.expr(a);
                self.emit(",");
                self.expr(b);
                let i1 = self.emit(")");
                (i0, i1)
            }
        };
        e.span.set(span);
        span
    }

    pub fn pat(&mut self, p: &Pat, ty: &Ty) {
        match p {
            Pat::Bind(n) => {
                self.emit(n);
            }
            Pat::Bool(b) => {
                self.emit(&b.to_string());
            }
            // (a number pattern takes its type from the matched value: in a third of the cases it is
            // printed without suffix - both bounds of a range or none, mixed ranges are parse errors)
            Pat::Int(v) => {
                let bare = self.force_suffix == 0 && self.choice(3) == 0;
                self.emit(&if bare { v.to_string() } else { ty.int().lit(*v) });
            }
            Pat::Range(lo, hi, excl) => {
                let t = ty.int();
                // (without suffixes both bounds have to be tokens of the same kind: `-128..=127` mixes a
                // signed and an unsigned number token and is a parse error)
                let shown_hi = if *excl { *hi + 1 } else { *hi };
                let bare = self.force_suffix == 0 && (*lo < 0) == (shown_hi < 0) && self.choice(3) == 0;
                let lit = |v: i128| if bare { v.to_string() } else { t.lit(v) };
                self.emit(&lit(*lo));
                if *excl {
                    self.emit("..");
                    self.emit(&lit(*hi + 1));
                } else {
                    self.emit("..=");
                    self.emit(&lit(*hi));
                }
            }
            Pat::Tuple(ps) => {
                let Ty::Tuple(ts) = ty else { panic!("harness: tuple pattern type") };
                self.emit("(");
                for (k, p) in ps.iter().enumerate() {
                    if k > 0 {
                        self.emit(",");
                    }
                    // (a mutant may have more patterns than the type has fields)
                    let t = ts.get(k).cloned().unwrap_or(Ty::Bool);
                    self.pat(p, &t);
                }
                self.emit(")");
            }
            Pat::Struct(si, fields, rest) => {
                let name = self.defs.structs[*si].name.clone();
                self.emit(&name);
                self.emit("{");
                for (k, (fi, p)) in fields.iter().enumerate() {
                    if k > 0 {
                        self.emit(",");
                    }
                    let (fname, fty) = self.defs.structs[*si].fields[*fi].clone();
                    if matches!(p, Pat::Bind(n) if *n == fname) {
                        self.emit(&fname);
                    } else {
                        self.emit(&fname);
                        self.emit(":");
                        self.pat(p, &fty);
                    }
                }
                if *rest {
                    self.emit(",");
                    self.emit("..");
                }
                self.emit("}");
            }
            Pat::Enum(ei, vi, ps) => {
                let ed = self.defs.enums[*ei].clone();
                self.emit(&ed.name);
                self.emit("::");
                self.emit(&ed.variants[*vi].0);
                if !ed.variants[*vi].1.is_empty() {
                    self.emit("(");
                    for (k, (p, t)) in ps.iter().zip(&ed.variants[*vi].1).enumerate() {
                        if k > 0 {
                            self.emit(",");
                        }
                        self.pat(p, t);
                    }
                    self.emit(")");
                }
            }
        }
    }

    /// An expression in statement / tail position. A leading unary minus would be taken as a
    /// binary minus continuing a preceding `if` / `match` / block statement, so it gets parentheses.
    fn stmt_expr(&mut self, e: &Expr) -> Span {
        if matches!(e.kind, ExprKind::Un(UnOp::Neg, _)) {
            self.emit("(");
            let s = self.expr(e);
            self.emit(")");
            s
        } else {
            self.expr(e)
        }
    }

    fn block_body(&mut self, b: &Block) {
        for s in &b.stmts {
            self.stmt(s);
        }
        if let Some(t) = &b.tail {
            self.stmt_expr(t);
        }
    }

    fn stmts(&mut self, ss: &[Stmt]) {
        for s in ss {
            self.stmt(s);
        }
    }

    pub fn stmt(&mut self, s: &Stmt) {
        let span = match &s.kind {
            StmtKind::Let(p, ty, e, annotated) => {
                let i0 = self.emit("let");
                self.pat(p, ty);
                let keep = !(self.drop_annot_pct > 0 && self.choice(100) < self.drop_annot_pct);
                let has_annotation = *annotated && keep;
                if has_annotation {
                    self.emit(":");
                    self.ty(ty);
                }
                self.emit("=");
                if !has_annotation {
                    self.force_suffix += 1;
                }
                self.typed_ctx = has_annotation;
                let se = self.expr(e);
                if !has_annotation {
                    self.force_suffix -= 1;
                }
                self.emit(";");
                (i0, se.1)
            }
            StmtKind::LetMut(n, ty, e, annotated) => {
                let i0 = self.emit("let");
                self.emit("mut");
                self.emit(n);
                let keep = !(self.drop_annot_pct > 0 && self.choice(100) < self.drop_annot_pct);
                let has_annotation = *annotated && keep;
                if has_annotation {
                    self.emit(":");
                    self.ty(ty);
                }
                self.emit("=");
                if !has_annotation {
                    self.force_suffix += 1;
                }
                self.typed_ctx = has_annotation;
                let se = self.expr(e);
                if !has_annotation {
                    self.force_suffix -= 1;
                }
                self.emit(";");
                (i0, se.1)
            }
            StmtKind::Assign { var, accs, op, value, .. } => {
                let i0 = self.emit(var);
                let start = i0;
                for a in accs {
                    match a {
                        Acc::Index(i) => {
                            self.index_tokens(i);
                            self.emit("]");
                        }
                        Acc::Tuple(k) => {
                            self.emit(".");
                            self.emit(&k.to_string());
                        }
                        Acc::Field(si, fi) => {
                            let fname = self.defs.structs[*si].fields[*fi].0.clone();
                            self.emit(".");
                            self.emit(&fname);
                        }
                    }
                }
                let optok = match op {
                    None => "=".to_string(),
                    Some(BinOp::Add) => "+=".into(),
                    Some(BinOp::Sub) => "-=".into(),
                    Some(BinOp::Mul) => "*=".into(),
                    Some(BinOp::Div) => "/=".into(),
                    Some(BinOp::Rem) => "%=".into(),
                    Some(BinOp::BitXor) => "^=".into(),
                    Some(BinOp::BitAnd) => "&=".into(),
                    Some(BinOp::BitOr) => "|=".into(),
                    Some(BinOp::Shl) => "<<=".into(),
                    Some(BinOp::Shr) => ">>=".into(),
                    Some(o) => panic!("harness: no compound assignment for {o:?}"),
                };
                self.emit(&optok);
                self.typed_ctx = op.is_none();
                let sv = self.expr(value);
                self.emit(";");
                (start, sv.1)
            }
            StmtKind::For { pat, iter, body } => {
                let i0 = self.emit("for");
                let Ty::Array(et, _) = &iter.ty else { panic!("harness: for over non-array") };
                self.pat(pat, et);
                self.emit("in");
                self.head(iter);
                self.emit("{");
                self.stmts(body);
                let i1 = self.emit("}");
                (i0, i1)
            }
            StmtKind::ForJoin { pat, a, b, body } => {
                let i0 = self.emit("for");
                let (Ty::Array(ea, _), Ty::Array(eb, _)) = (&a.ty, &b.ty) else { panic!("harness: join over non-arrays") };
                let pty = Ty::Tuple(vec![(**ea).clone(), (**eb).clone()]);
                self.pat(pat, &pty);
                self.emit("in");
                self.emit("join_iter");
                self.emit("(");
                self.expr(a);
                self.emit(",");
                self.expr(b);
                self.emit(")");
                self.emit("{");
                self.stmts(body);
                let i1 = self.emit("}");
                (i0, i1)
            }
            StmtKind::Expr(e) => {
                self.at_stmt_start = true;
                let se = self.stmt_expr(e);
                self.at_stmt_start = false;
                // `if` / `match` / block in statement position must not be followed by `;`
                if !matches!(e.kind, ExprKind::If(..) | ExprKind::Match(..) | ExprKind::Block(..)) {
                    self.emit(";");
                }
                se
            }
        };
        s.span.set(span);
    }

    pub fn fn_def(&mut self, f: &FnDef) {
        if f.is_pub {
            self.emit("pub");
        }
        self.emit("fn");
        self.emit(&f.name);
        self.emit("(");
        for (k, p) in f.params.iter().enumerate() {
            if k > 0 {
                self.emit(",");
            }
            if p.mutable {
                self.emit("mut");
            }
            self.emit(&p.name);
            self.emit(":");
            self.ty(&p.ty);
        }
        self.emit(")");
        self.emit("->");
        self.ty(&f.ret);
        self.emit("{");
        self.block_body(&f.body);
        self.emit("}");
    }

    pub fn type_defs(&mut self) {
        for (name, ty, val) in self.defs.consts.clone() {
            self.emit("const");
            self.emit(&name);
            self.emit(":");
            self.ty(&ty);
            self.emit("=");
            self.lit(&val, &ty);
            self.emit(";");
        }
        for sd in self.defs.structs.clone() {
            self.emit("struct");
            self.emit(&sd.name);
            self.emit("{");
            for (k, (n, t)) in sd.fields.iter().enumerate() {
                if k > 0 {
                    self.emit(",");
                }
                self.emit(n);
                self.emit(":");
                self.ty(t);
            }
            self.emit("}");
        }
        for ed in self.defs.enums.clone() {
            self.emit("enum");
            self.emit(&ed.name);
            self.emit("{");
            for (k, (n, ts)) in ed.variants.iter().enumerate() {
                if k > 0 {
                    self.emit(",");
                }
                self.emit(n);
                if !ts.is_empty() {
                    self.emit("(");
                    for (j, t) in ts.iter().enumerate() {
                        if j > 0 {
                            self.emit(",");
                        }
                        self.ty(t);
                    }
                    self.emit(")");
                }
            }
            self.emit("}");
        }
    }
}

#[derive(Clone, Copy, Debug, PartialEq, Eq)]
pub enum Layout {
    /// every token on its own line, preceded by one blank; token i is on (0-based) line i + 1
    TokenPerLine,
    Compact,
}

/// Print a whole program; assigns spans to all nodes. Returns the token list.
pub fn print_program(p: &Program, style: u64) -> Vec<String> {
    // a quarter of the let annotations is dropped (the literals inside such an initializer keep their
    // suffix - generator mask of known finding KF-C05-1 - so the type of the binding is still determined)
    print_program_inference(p, style, 0, 25)
}

/// As `print_program`, but every literal keeps its type suffix (for rule-breaking mutants: an
/// operand of another type must not be rescued by inference).
pub fn print_program_suffixed(p: &Program, style: u64) -> Vec<String> {
    print_program_cfg(p, style, 0, 0, true)
}

/// As `print_program`, dropping some literal suffixes / let annotations (C05).
pub fn print_program_inference(p: &Program, style: u64, drop_suffix_pct: u64, drop_annot_pct: u64) -> Vec<String> {
    print_program_cfg(p, style, drop_suffix_pct, drop_annot_pct, false)
}

fn print_program_cfg(p: &Program, style: u64, drop_suffix_pct: u64, drop_annot_pct: u64, all_suffixed: bool) -> Vec<String> {
    let mut pr = Printer::new(&p.defs, &p.fns, style);
    pr.drop_suffix_pct = drop_suffix_pct;
    pr.drop_annot_pct = drop_annot_pct;
    if all_suffixed {
        pr.force_suffix = 1;
    }
    let main_first = style & 1 == 1;
    if main_first {
        pr.fn_def(p.main());
    }
    pr.type_defs();
    for f in &p.fns[..p.fns.len() - 1] {
        pr.fn_def(f);
    }
    if !main_first {
        pr.fn_def(p.main());
    }
    pr.toks
}

pub fn render(toks: &[String], layout: Layout) -> String {
    match layout {
        Layout::TokenPerLine => {
            let mut s = String::with_capacity(toks.len() * 8);
            s.push('\n');
            for t in toks {
                s.push(' ');
                s.push_str(t);
                s.push('\n');
            }
            s
        }
        Layout::Compact => {
            let mut s = String::new();
            let mut indent = 0usize;
            let mut at_line_start = true;
            for t in toks {
                if t == "}" {
                    indent = indent.saturating_sub(1);
                    if !at_line_start {
                        s.push('\n');
                    }
                    at_line_start = true;
                }
                if at_line_start {
                    for _ in 0..indent {
                        s.push_str("  ");
                    }
                } else {
                    s.push(' ');
                }
                s.push_str(t);
                at_line_start = false;
                if t == "{" {
                    indent += 1;
                    s.push('\n');
                    at_line_start = true;
                } else if t == ";" || t == "}" {
                    s.push('\n');
                    at_line_start = true;
                }
            }
            s
        }
    }
}

/// Line (0-based, as in MetaInfo) of token `i` in the token-per-line layout.
pub fn line_of_token(i: u32) -> u32 {
    i + 1
}
