//! Own AST of the generated Garble subset.

use super::ty::{Defs, Ty, Val};
use crate::ints::BinOp;
use std::cell::Cell;

/// Span in token indices (first token, last token) as assigned by the printer following the
/// parser's rules for `MetaInfo`. (u32::MAX, u32::MAX) = not printed yet.
pub type Span = (u32, u32);
pub const NO_SPAN: Span = (u32::MAX, u32::MAX);

#[derive(Clone, Copy, Debug, PartialEq, Eq)]
pub enum UnOp {
    Neg,
    Not,
}

#[derive(Clone, Debug)]
pub struct Expr {
    pub kind: ExprKind,
    pub ty: Ty,
    pub span: Cell<Span>,
}

impl Expr {
    pub fn new(kind: ExprKind, ty: Ty) -> Expr {
        Expr { kind, ty, span: Cell::new(NO_SPAN) }
    }
}

#[derive(Clone, Debug)]
pub enum ExprKind {
    /// bool / integer literal (printed with suffix)
    Lit(Val),
    Var(String),
    Un(UnOp, Box<Expr>),
    Bin(BinOp, Box<Expr>, Box<Expr>),
    /// cast to `self.ty`
    Cast(Box<Expr>),
    If(Box<Expr>, Block, Block),
    Match(Box<Expr>, Vec<(Pat, Block)>),
    Block(Block),
    Call(usize, Vec<Expr>),
    ArrayLit(Vec<Expr>),
    ArrayRepeat(Box<Expr>, usize),
    /// `lo..hi` of the unsigned element type in `self.ty`
    Range(u64, u64),
    TupleLit(Vec<Expr>),
    /// struct index, (field index in declaration order, value) in *written* order
    StructLit(usize, Vec<(usize, Expr)>),
    EnumLit(usize, usize, Vec<Expr>),
    Index(Box<Expr>, Box<Expr>),
    TupleField(Box<Expr>, usize),
    /// (struct expr, field index in declaration order)
    StructField(Box<Expr>, usize),
    /// `join(a, b)` built-in; `self.ty` is the result array type
    Join(Box<Expr>, Box<Expr>),
}

#[derive(Clone, Debug, Default)]
pub struct Block {
    pub stmts: Vec<Stmt>,
    pub tail: Option<Box<Expr>>,
}

impl Block {
    pub fn ty(&self) -> Ty {
        match &self.tail {
            Some(e) => e.ty.clone(),
            None => Ty::unit(),
        }
    }
}

#[derive(Clone, Debug)]
pub enum Acc {
    Index(Expr),
    Tuple(usize),
    /// field index in declaration order of the struct type at that point
    Field(usize, usize),
}

#[derive(Clone, Debug)]
pub struct Stmt {
    pub kind: StmtKind,
    pub span: Cell<Span>,
}

impl Stmt {
    pub fn new(kind: StmtKind) -> Stmt {
        Stmt { kind, span: Cell::new(NO_SPAN) }
    }
}

#[derive(Clone, Debug)]
pub enum StmtKind {
    /// `let pat: ty = e;` (annotated = print the type)
    Let(Pat, Ty, Expr, bool),
    LetMut(String, Ty, Expr, bool),
    /// `var.acc.. (op)= value;`; `target_ty` is the type of the addressed place
    Assign { var: String, accs: Vec<Acc>, op: Option<BinOp>, value: Expr, target_ty: Ty },
    For { pat: Pat, iter: Expr, body: Vec<Stmt> },
    /// `for pat in join_iter(a, b) { body }`
    ForJoin { pat: Pat, a: Expr, b: Expr, body: Vec<Stmt> },
    /// expression statement
    Expr(Expr),
}

#[derive(Clone, Debug)]
pub enum Pat {
    Bind(String),
    Bool(bool),
    /// integer literal of the scrutinee's type
    Int(i128),
    /// inclusive bounds; `exclusive_print` prints `lo..hi+1`
    Range(i128, i128, bool),
    Tuple(Vec<Pat>),
    /// struct index, (field index decl order, pattern) in written order, `..` at the end
    Struct(usize, Vec<(usize, Pat)>, bool),
    Enum(usize, usize, Vec<Pat>),
}

#[derive(Clone, Debug)]
pub struct Param {
    pub name: String,
    pub ty: Ty,
    pub mutable: bool,
}

#[derive(Clone, Debug)]
pub struct FnDef {
    pub name: String,
    pub is_pub: bool,
    pub params: Vec<Param>,
    pub ret: Ty,
    pub body: Block,
}

#[derive(Clone, Debug)]
pub struct Program {
    pub defs: Defs,
    /// helper functions first, `main` last
    pub fns: Vec<FnDef>,
}

impl Program {
    pub fn main(&self) -> &FnDef {
        self.fns.last().unwrap()
    }
}
