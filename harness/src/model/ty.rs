//! Own type model, values and bit codec (documented layout), independent of garble_lang.

use crate::ints::{self, IntTy};
use crate::rng::Rng;

#[derive(Clone, PartialEq, Eq, Hash, Debug, PartialOrd, Ord)]
pub enum Ty {
    Bool,
    Int(IntTy),
    Array(Box<Ty>, usize),
    Tuple(Vec<Ty>),
    Struct(usize),
    Enum(usize),
}

#[derive(Clone, Debug, PartialEq, Eq)]
pub struct StructDef {
    pub name: String,
    /// declaration order (layout is by name order)
    pub fields: Vec<(String, Ty)>,
}

#[derive(Clone, Debug, PartialEq, Eq)]
pub struct EnumDef {
    pub name: String,
    /// (variant name, payload types); empty payload = unit variant
    pub variants: Vec<(String, Vec<Ty>)>,
}

#[derive(Clone, Debug, Default, PartialEq, Eq)]
pub struct Defs {
    pub structs: Vec<StructDef>,
    pub enums: Vec<EnumDef>,
    /// top-level constants `const NAME: ty = literal;` (bool / integer types), visible in every function
    pub consts: Vec<(String, Ty, Val)>,
}

impl StructDef {
    /// indices of the fields in name order (= layout order)
    pub fn layout_order(&self) -> Vec<usize> {
        let mut idx: Vec<usize> = (0..self.fields.len()).collect();
        idx.sort_by(|a, b| self.fields[*a].0.cmp(&self.fields[*b].0));
        idx
    }
    pub fn field_index(&self, name: &str) -> Option<usize> {
        self.fields.iter().position(|(n, _)| n == name)
    }
}

impl EnumDef {
    pub fn tag_bits(&self) -> usize {
        let mut b = 0;
        while (1usize << b) < self.variants.len() {
            b += 1;
        }
        b
    }
}

pub const UNIT: Ty = Ty::Tuple(vec![]);

impl Ty {
    pub fn unit() -> Ty {
        Ty::Tuple(vec![])
    }
    pub fn is_unit(&self) -> bool {
        matches!(self, Ty::Tuple(f) if f.is_empty())
    }
    pub fn show(&self, d: &Defs) -> String {
        match self {
            Ty::Bool => "bool".into(),
            Ty::Int(t) => t.name().into(),
            Ty::Array(e, n) => format!("[{}; {}]", e.show(d), n),
            Ty::Tuple(f) => format!("({})", f.iter().map(|t| t.show(d)).collect::<Vec<_>>().join(", ")),
            Ty::Struct(i) => d.structs[*i].name.clone(),
            Ty::Enum(i) => d.enums[*i].name.clone(),
        }
    }
    /// tokens of the type (for the token-per-line printer)
    pub fn tokens(&self, d: &Defs, out: &mut Vec<String>) {
        match self {
            Ty::Bool => out.push("bool".into()),
            Ty::Int(t) => out.push(t.name().into()),
            Ty::Array(e, n) => {
                out.push("[".into());
                e.tokens(d, out);
                out.push(";".into());
                out.push(n.to_string());
                out.push("]".into());
            }
            Ty::Tuple(f) => {
                out.push("(".into());
                for (i, t) in f.iter().enumerate() {
                    if i > 0 {
                        out.push(",".into());
                    }
                    t.tokens(d, out);
                }
                out.push(")".into());
            }
            Ty::Struct(i) => out.push(d.structs[*i].name.clone()),
            Ty::Enum(i) => out.push(d.enums[*i].name.clone()),
        }
    }
    pub fn bits(&self, d: &Defs) -> usize {
        match self {
            Ty::Bool => 1,
            Ty::Int(t) => t.bits as usize,
            Ty::Array(e, n) => e.bits(d) * n,
            Ty::Tuple(f) => f.iter().map(|t| t.bits(d)).sum(),
            Ty::Struct(i) => d.structs[*i].fields.iter().map(|(_, t)| t.bits(d)).sum(),
            Ty::Enum(i) => {
                let e = &d.enums[*i];
                e.tag_bits() + e.variants.iter().map(|(_, p)| p.iter().map(|t| t.bits(d)).sum::<usize>()).max().unwrap_or(0)
            }
        }
    }
    pub fn is_int(&self) -> bool {
        matches!(self, Ty::Int(_))
    }
    pub fn int(&self) -> IntTy {
        match self {
            Ty::Int(t) => *t,
            _ => panic!("harness: not an int type: {self:?}"),
        }
    }
    pub fn is_prim(&self) -> bool {
        matches!(self, Ty::Bool | Ty::Int(_))
    }
    /// types Garble can `match` on
    pub fn matchable(&self) -> bool {
        !matches!(self, Ty::Array(..))
    }
}

#[derive(Clone, PartialEq, Eq, Debug, Hash)]
pub enum Val {
    Bool(bool),
    Int(i128),
    Array(Vec<Val>),
    Tuple(Vec<Val>),
    /// fields in declaration order
    Struct(Vec<Val>),
    Enum(usize, Vec<Val>),
}

impl Val {
    pub fn unit() -> Val {
        Val::Tuple(vec![])
    }
    pub fn as_bool(&self) -> bool {
        match self {
            Val::Bool(b) => *b,
            _ => panic!("harness: not a bool: {self:?}"),
        }
    }
    pub fn as_int(&self) -> i128 {
        match self {
            Val::Int(v) => *v,
            _ => panic!("harness: not an int: {self:?}"),
        }
    }
    pub fn elems(&self) -> &Vec<Val> {
        match self {
            Val::Array(v) | Val::Tuple(v) | Val::Struct(v) => v,
            _ => panic!("harness: not a collection: {self:?}"),
        }
    }
    pub fn elems_mut(&mut self) -> &mut Vec<Val> {
        match self {
            Val::Array(v) | Val::Tuple(v) | Val::Struct(v) => v,
            _ => panic!("harness: not a collection"),
        }
    }
}

/// Encode by the documented layout: big-endian two's complement integers, elements / fields
/// concatenated (struct fields in name order), enum = tag then payload, zero padded.
pub fn encode(v: &Val, ty: &Ty, d: &Defs, out: &mut Vec<bool>) {
    match (v, ty) {
        (Val::Bool(b), Ty::Bool) => out.push(*b),
        (Val::Int(x), Ty::Int(t)) => {
            let raw = t.to_raw(*x);
            for b in (0..t.bits).rev() {
                out.push((raw >> b) & 1 == 1);
            }
        }
        (Val::Array(es), Ty::Array(et, n)) => {
            assert_eq!(es.len(), *n);
            for e in es {
                encode(e, et, d, out);
            }
        }
        (Val::Tuple(fs), Ty::Tuple(ts)) => {
            for (f, t) in fs.iter().zip(ts) {
                encode(f, t, d, out);
            }
        }
        (Val::Struct(fs), Ty::Struct(i)) => {
            let sd = &d.structs[*i];
            for k in sd.layout_order() {
                encode(&fs[k], &sd.fields[k].1, d, out);
            }
        }
        (Val::Enum(var, payload), Ty::Enum(i)) => {
            let ed = &d.enums[*i];
            let total = ty.bits(d);
            let start = out.len();
            let tb = ed.tag_bits();
            for b in (0..tb).rev() {
                out.push((var >> b) & 1 == 1);
            }
            for (p, t) in payload.iter().zip(&ed.variants[*var].1) {
                encode(p, t, d, out);
            }
            while out.len() < start + total {
                out.push(false);
            }
        }
        _ => panic!("harness: value {v:?} does not have type {ty:?}"),
    }
}

pub fn encode_vec(v: &Val, ty: &Ty, d: &Defs) -> Vec<bool> {
    let mut out = Vec::with_capacity(ty.bits(d));
    encode(v, ty, d, &mut out);
    out
}

/// Decode; returns None if the bits do not denote a value (enum tag out of range).
pub fn decode(bits: &[bool], ty: &Ty, d: &Defs) -> Option<Val> {
    let mut pos = 0;
    let v = decode_at(bits, &mut pos, ty, d)?;
    if pos != bits.len() {
        return None;
    }
    Some(v)
}

fn decode_at(bits: &[bool], pos: &mut usize, ty: &Ty, d: &Defs) -> Option<Val> {
    match ty {
        Ty::Bool => {
            let b = *bits.get(*pos)?;
            *pos += 1;
            Some(Val::Bool(b))
        }
        Ty::Int(t) => {
            let mut raw = 0u64;
            for _ in 0..t.bits {
                raw = (raw << 1) | (*bits.get(*pos)? as u64);
                *pos += 1;
            }
            Some(Val::Int(t.from_raw(raw)))
        }
        Ty::Array(et, n) => {
            let mut es = Vec::with_capacity(*n);
            for _ in 0..*n {
                es.push(decode_at(bits, pos, et, d)?);
            }
            Some(Val::Array(es))
        }
        Ty::Tuple(ts) => {
            let mut fs = Vec::with_capacity(ts.len());
            for t in ts {
                fs.push(decode_at(bits, pos, t, d)?);
            }
            Some(Val::Tuple(fs))
        }
        Ty::Struct(i) => {
            let sd = &d.structs[*i];
            let mut fs: Vec<Option<Val>> = vec![None; sd.fields.len()];
            for k in sd.layout_order() {
                fs[k] = Some(decode_at(bits, pos, &sd.fields[k].1, d)?);
            }
            Some(Val::Struct(fs.into_iter().map(|f| f.unwrap()).collect()))
        }
        Ty::Enum(i) => {
            let ed = &d.enums[*i];
            let total = ty.bits(d);
            let start = *pos;
            let mut var = 0usize;
            for _ in 0..ed.tag_bits() {
                var = (var << 1) | (*bits.get(*pos)? as usize);
                *pos += 1;
            }
            if var >= ed.variants.len() {
                return None;
            }
            let mut payload = vec![];
            for t in &ed.variants[var].1 {
                payload.push(decode_at(bits, pos, t, d)?);
            }
            if start + total > bits.len() {
                return None;
            }
            *pos = start + total;
            Some(Val::Enum(var, payload))
        }
    }
}

/// Garble literal text of a value (fully suffixed).
pub fn val_text(v: &Val, ty: &Ty, d: &Defs) -> String {
    match (v, ty) {
        (Val::Bool(b), _) => b.to_string(),
        (Val::Int(x), Ty::Int(t)) => t.lit(*x),
        (Val::Array(es), Ty::Array(et, _)) => format!("[{}]", es.iter().map(|e| val_text(e, et, d)).collect::<Vec<_>>().join(", ")),
        (Val::Tuple(fs), Ty::Tuple(ts)) => format!("({})", fs.iter().zip(ts).map(|(f, t)| val_text(f, t, d)).collect::<Vec<_>>().join(", ")),
        (Val::Struct(fs), Ty::Struct(i)) => {
            let sd = &d.structs[*i];
            format!(
                "{} {{ {} }}",
                sd.name,
                fs.iter().zip(&sd.fields).map(|(f, (n, t))| format!("{n}: {}", val_text(f, t, d))).collect::<Vec<_>>().join(", ")
            )
        }
        (Val::Enum(var, payload), Ty::Enum(i)) => {
            let ed = &d.enums[*i];
            let (vn, pts) = &ed.variants[*var];
            if pts.is_empty() {
                format!("{}::{}", ed.name, vn)
            } else {
                format!("{}::{}({})", ed.name, vn, payload.iter().zip(pts).map(|(p, t)| val_text(p, t, d)).collect::<Vec<_>>().join(", "))
            }
        }
        _ => panic!("harness: value/type mismatch"),
    }
}

/// Boundary-biased random value of a type.
pub fn gen_val(rng: &mut Rng, ty: &Ty, d: &Defs) -> Val {
    match ty {
        Ty::Bool => Val::Bool(rng.bool()),
        Ty::Int(t) => Val::Int(gen_int(rng, *t)),
        Ty::Array(et, n) => Val::Array((0..*n).map(|_| gen_val(rng, et, d)).collect()),
        Ty::Tuple(ts) => Val::Tuple(ts.iter().map(|t| gen_val(rng, t, d)).collect()),
        Ty::Struct(i) => Val::Struct(d.structs[*i].fields.iter().map(|(_, t)| gen_val(rng, t, d)).collect()),
        Ty::Enum(i) => {
            let ed = &d.enums[*i];
            let var = rng.usize_below(ed.variants.len());
            Val::Enum(var, ed.variants[var].1.iter().map(|t| gen_val(rng, t, d)).collect())
        }
    }
}

pub fn gen_int(rng: &mut Rng, t: IntTy) -> i128 {
    match rng.below(12) {
        0 => 0,
        1 => 1,
        2 => t.max_val(),
        3 => t.min_val(),
        4 => t.max_val() - 1,
        5 => {
            if t.signed {
                -1
            } else {
                2
            }
        }
        6 | 7 => {
            // small values (useful as indices / shift amounts / divisors)
            let v = rng.below(9) as i128;
            if t.signed && rng.chance(1, 3) {
                -v
            } else {
                v
            }
        }
        8 => {
            let k = rng.below(t.bits as u64) as u32;
            let p = 1i128 << k;
            let c = *rng.pick(&[p - 1, p, p + 1]);
            if t.fits(c) {
                c
            } else {
                t.max_val()
            }
        }
        _ => ints::random_value(rng, t),
    }
}
