//! Type-directed program generator: only builds terms that are well-typed under the documented
//! rules (all literals suffixed, all lets annotated), fully parenthesised by the printer.

use super::ast::*;
use super::ty::{Defs, EnumDef, StructDef, Ty, Val};
use crate::ints::{self, BinOp, IntTy};
use crate::rng::Rng;

#[derive(Clone, Copy, Debug, PartialEq, Eq)]
pub enum Profile {
    Mixed,
    PanicHeavy,
    MutationHeavy,
    MatchFocused,
}

#[derive(Clone, Debug)]
pub struct GenCfg {
    pub profile: Profile,
    pub max_depth: u32,
    pub max_stmts: usize,
    pub max_fns: usize,
    pub max_params: usize,
    pub max_array: usize,
    /// soft cap on the number of AST nodes of the whole program
    pub max_nodes: usize,
    /// cap on the estimated unrolled cost (loops and inlined calls multiply)
    pub max_cost: u64,
    pub allow_join: bool,
    /// return a tuple of (result, all live variables of main)
    pub return_all_vars: bool,
}

impl GenCfg {
    pub fn new(profile: Profile) -> GenCfg {
        GenCfg {
            profile,
            max_depth: 4,
            max_stmts: 8,
            max_fns: 2,
            max_params: 4,
            max_array: 4,
            max_nodes: 220,
            max_cost: 2500,
            allow_join: false,
            return_all_vars: profile == Profile::MutationHeavy,
        }
    }
}

#[derive(Clone, Debug)]
struct Var {
    name: String,
    ty: Ty,
    mutable: bool,
}

pub struct Gen<'r> {
    pub rng: &'r mut Rng,
    cfg: GenCfg,
    defs: Defs,
    fns: Vec<FnDef>,
    fn_used: Vec<bool>,
    scopes: Vec<Vec<Var>>,
    next_id: usize,
    in_head: u32,
    /// the next call gets a block with an assignment as its first possible argument
    force_arg_block: bool,
    heavy_budget: i32,
    nodes: usize,
    pure_ctx: u32,
    loop_depth: u32,
    /// generator mask for known finding KF-C14-2: variables ("*" = all) that must not be assigned because
    /// the code being generated is the value of a compound assignment to a component of them
    no_assign: Vec<String>,
    /// multiplicity of the code being generated (product of enclosing loop trip counts)
    mult: u64,
    /// estimated unrolled cost of the function being generated (1 unit ~ 50 gates)
    cost: u64,
    fn_cost: Vec<u64>,
    /// statistics: constructs used
    pub used: std::collections::BTreeSet<&'static str>,
}

const FIELD_NAMES: [&str; 8] = ["zeta", "alpha", "mid", "beta", "omega", "b", "a", "kappa"];

fn e(kind: ExprKind, ty: Ty) -> Expr {
    Expr::new(kind, ty)
}

fn lit_int(t: IntTy, v: i128) -> Expr {
    e(ExprKind::Lit(Val::Int(v)), Ty::Int(t))
}

fn lit_bool(b: bool) -> Expr {
    e(ExprKind::Lit(Val::Bool(b)), Ty::Bool)
}

impl<'r> Gen<'r> {
    pub fn new(rng: &'r mut Rng, cfg: GenCfg) -> Self {
        Gen {
            rng,
            cfg,
            defs: Defs::default(),
            fns: vec![],
            fn_used: vec![],
            scopes: vec![],
            next_id: 0,
            in_head: 0,
            force_arg_block: false,
            heavy_budget: 1,
            nodes: 0,
            pure_ctx: 0,
            loop_depth: 0,
            no_assign: vec![],
            mult: 1,
            cost: 0,
            fn_cost: vec![],
            used: Default::default(),
        }
    }

    fn fresh(&mut self, prefix: &str) -> String {
        // (never a name that the current scope holds already: a constant from the name pool that a
        // pattern binding shadows must not meet the same number again within that pattern)
        loop {
            self.next_id += 1;
            let name = format!("{prefix}{}", self.next_id);
            if !self.scopes.last().map(|sc| sc.iter().any(|v| v.name == name)).unwrap_or(false) {
                return name;
            }
        }
    }

    fn charge(&mut self, units: u64) {
        self.cost = self.cost.saturating_add(self.mult.saturating_mul(units));
    }

    fn over_budget(&self) -> bool {
        self.nodes > self.cfg.max_nodes || self.cost > self.cfg.max_cost
    }

    fn type_cost(&self, ty: &Ty) -> u64 {
        1 + ty.bits(&self.defs) as u64 / 16
    }

    fn note(&mut self, what: &'static str) {
        self.used.insert(what);
    }

    // ------------------------------------------------------------------------------------ types

    fn gen_int_ty(&mut self) -> IntTy {
        let all = [ints::U8, ints::I8, ints::U16, ints::I16, ints::U32, ints::I32, ints::U64, ints::I64, ints::USIZE];
        all[self.rng.weighted(&[22, 14, 10, 9, 8, 8, 4, 4, 8])]
    }

    fn gen_prim_ty(&mut self) -> Ty {
        if self.rng.chance(1, 6) {
            Ty::Bool
        } else {
            Ty::Int(self.gen_int_ty())
        }
    }

    pub fn gen_ty(&mut self, depth: u32) -> Ty {
        loop {
            let t = self.gen_ty_any(depth);
            // struct literals cannot be written inside if/match/for heads, so no expression of a
            // struct-containing type is ever requested there
            if self.in_head == 0 || !self.contains_struct(&t) {
                return t;
            }
        }
    }

    fn gen_ty_any(&mut self, depth: u32) -> Ty {
        let w_struct = if self.defs.structs.is_empty() { 0 } else { 8 };
        let w_enum = if self.defs.enums.is_empty() { 0 } else { 7 };
        let w_comp = if depth == 0 { 0 } else { 1 };
        // arrays of zero-sized elements (field-less structs) get their own share
        if depth > 0 && self.rng.chance(1, 10) {
            if let Some(zi) = self.defs.structs.iter().position(|sd| sd.fields.is_empty()) {
                let n = 1 + self.rng.usize_below(self.cfg.max_array);
                return Ty::Array(Box::new(Ty::Struct(zi)), n);
            }
        }
        match self.rng.weighted(&[60, 14 * w_comp, 12 * w_comp, w_struct, w_enum]) {
            0 => self.gen_prim_ty(),
            1 => {
                let n = 1 + self.rng.usize_below(self.cfg.max_array);
                Ty::Array(Box::new(self.gen_ty_any(depth - 1)), n)
            }
            2 => {
                let n = 2 + self.rng.usize_below(2);
                Ty::Tuple((0..n).map(|_| self.gen_ty_any(depth - 1)).collect())
            }
            3 => Ty::Struct(self.rng.usize_below(self.defs.structs.len())),
            _ => Ty::Enum(self.rng.usize_below(self.defs.enums.len())),
        }
    }

    fn gen_defs(&mut self) {
        let n_structs = self.rng.weighted(&[4, 4, 2]);
        let n_enums = self.rng.weighted(&[4, 4, 2]);
        let total = n_structs + n_enums;
        let mut s_left = n_structs;
        for k in 0..total {
            let make_struct = s_left > 0 && (self.rng.bool() || total - k <= s_left);
            if make_struct {
                s_left -= 1;
                // (rarely a field-less struct: a zero-sized type that can be written as a value)
                let nf = if self.rng.chance(1, 10) { 0 } else { 1 + self.rng.usize_below(3) };
                let mut names: Vec<&str> = FIELD_NAMES.to_vec();
                self.rng.shuffle(&mut names);
                let fields = (0..nf).map(|i| (names[i].to_string(), self.gen_ty(1))).collect();
                let name = format!("S{}", self.defs.structs.len());
                self.defs.structs.push(StructDef { name, fields });
            } else {
                let nv = 2 + self.rng.usize_below(3);
                let name = format!("E{}", self.defs.enums.len());
                let variants = (0..nv)
                    .map(|i| {
                        let np = self.rng.weighted(&[3, 4, 2]);
                        // (the first payload type may be an array or a tuple as well: the parser, which
                        // accepted only types starting with an identifier there, was repaired)
                        let payload: Vec<Ty> = (0..np).map(|_| self.gen_ty(1)).collect();
                        (format!("V{i}"), payload)
                    })
                    .collect();
                self.defs.enums.push(EnumDef { name, variants });
            }
        }
    }

    // ------------------------------------------------------------------------------------ scopes

    fn visible_vars(&self) -> Vec<Var> {
        let mut seen = std::collections::HashSet::new();
        let mut out = vec![];
        for s in self.scopes.iter().rev() {
            for v in s.iter().rev() {
                if seen.insert(v.name.clone()) {
                    out.push(v.clone());
                }
            }
        }
        out
    }

    fn declare(&mut self, name: &str, ty: Ty, mutable: bool) {
        self.scopes.last_mut().unwrap().push(Var { name: name.to_string(), ty, mutable });
    }

    /// All read-only places of type `ty` reachable from visible variables with at most two
    /// constant projections.
    fn places_of(&mut self, ty: &Ty) -> Vec<Expr> {
        let mut out = vec![];
        for v in self.visible_vars() {
            if v.name == "_" {
                continue;
            }
            let base = e(ExprKind::Var(v.name.clone()), v.ty.clone());
            self.collect_places(base, ty, 2, &mut out);
        }
        out
    }

    fn collect_places(&mut self, base: Expr, want: &Ty, depth: u32, out: &mut Vec<Expr>) {
        if &base.ty == want {
            out.push(base.clone());
        }
        if depth == 0 {
            return;
        }
        match base.ty.clone() {
            Ty::Tuple(ts) => {
                for (k, t) in ts.iter().enumerate() {
                    let p = e(ExprKind::TupleField(Box::new(base.clone()), k), t.clone());
                    self.collect_places(p, want, depth - 1, out);
                }
            }
            Ty::Struct(si) => {
                let fields = self.defs.structs[si].fields.clone();
                for (k, (_, t)) in fields.iter().enumerate() {
                    let p = e(ExprKind::StructField(Box::new(base.clone()), k), t.clone());
                    self.collect_places(p, want, depth - 1, out);
                }
            }
            Ty::Array(et, n) if n > 0 => {
                // one constant in-range index (more would blow up the candidate list)
                let k = self.rng.usize_below(n);
                let p = e(ExprKind::Index(Box::new(base.clone()), Box::new(lit_int(ints::USIZE, k as i128))), (*et).clone());
                self.collect_places(p, want, depth - 1, out);
            }
            _ => {}
        }
    }

    // ------------------------------------------------------------------------------------ leaves

    fn gen_int_lit(&mut self, t: IntTy) -> Expr {
        let v = match self.cfg.profile {
            Profile::PanicHeavy => super::ty::gen_int(self.rng, t),
            _ => {
                if self.rng.chance(3, 5) {
                    let v = self.rng.below(12) as i128;
                    if t.signed && self.rng.chance(1, 4) {
                        -v
                    } else {
                        v
                    }
                } else {
                    super::ty::gen_int(self.rng, t)
                }
            }
        };
        lit_int(t, v)
    }

    /// A constructor expression of type `ty` whose leaves come from `gen_expr(depth)`.
    fn construct(&mut self, ty: &Ty, depth: u32) -> Expr {
        self.nodes += 1;
        match ty {
            Ty::Bool => lit_bool(self.rng.bool()),
            Ty::Int(t) => self.gen_int_lit(*t),
            Ty::Array(et, n) => {
                let small = self.over_budget();
                // (`[]` cannot be written in programs: an empty array is always a repeat literal)
                if *n == 0 || !et.is_unit() && (self.rng.chance(1, 4) || small) {
                    self.note("array-repeat");
                    let x = self.gen_expr(et, depth.saturating_sub(1));
                    return e(ExprKind::ArrayRepeat(Box::new(x), *n), ty.clone());
                }
                if let Ty::Int(t) = &**et {
                    if !t.signed && self.rng.chance(1, 4) {
                        let max_lo = (t.max_val() - *n as i128).min(40);
                        if max_lo >= 0 {
                            self.note("range");
                            let lo = self.rng.below(max_lo as u64 + 1);
                            return e(ExprKind::Range(lo, lo + *n as u64), ty.clone());
                        }
                    }
                }
                self.note("array-literal");
                let es = (0..*n).map(|_| self.gen_expr(et, depth.saturating_sub(1))).collect();
                e(ExprKind::ArrayLit(es), ty.clone())
            }
            Ty::Tuple(ts) => {
                self.note("tuple-literal");
                let es = ts.iter().map(|t| self.gen_expr(t, depth.saturating_sub(1))).collect();
                e(ExprKind::TupleLit(es), ty.clone())
            }
            Ty::Struct(si) => {
                // struct literals are not allowed in if/match/for heads: bind via a block there
                self.note("struct-literal");
                let n = self.defs.structs[*si].fields.len();
                let mut order: Vec<usize> = (0..n).collect();
                let permuted = self.rng.chance(1, 2);
                if permuted {
                    self.rng.shuffle(&mut order);
                    self.pure_ctx += 1;
                }
                let fields: Vec<(usize, Expr)> = order
                    .iter()
                    .map(|fi| {
                        let ft = self.defs.structs[*si].fields[*fi].1.clone();
                        (*fi, self.gen_expr(&ft, depth.saturating_sub(1)))
                    })
                    .collect();
                if permuted {
                    self.pure_ctx -= 1;
                }
                e(ExprKind::StructLit(*si, fields), ty.clone())
            }
            Ty::Enum(ei) => {
                self.note("enum-literal");
                let vi = self.rng.usize_below(self.defs.enums[*ei].variants.len());
                let pts = self.defs.enums[*ei].variants[vi].1.clone();
                let args = pts.iter().map(|t| self.gen_expr(t, depth.saturating_sub(1))).collect();
                e(ExprKind::EnumLit(*ei, vi, args), ty.clone())
            }
        }
    }

    fn contains_struct(&self, ty: &Ty) -> bool {
        match ty {
            Ty::Struct(_) => true,
            Ty::Array(e, _) => self.contains_struct(e),
            Ty::Tuple(ts) => ts.iter().any(|t| self.contains_struct(t)),
            Ty::Enum(ei) => self.defs.enums[*ei].variants.iter().any(|(_, p)| p.iter().any(|t| self.contains_struct(t))),
            _ => false,
        }
    }

    fn leaf(&mut self, ty: &Ty) -> Expr {
        self.nodes += 1;
        let places = self.places_of(ty);
        let p_var = match self.cfg.profile {
            Profile::PanicHeavy => 8,
            _ => 7,
        };
        if !places.is_empty() && self.rng.chance(p_var, 10) {
            return self.rng.pick(&places).clone();
        }
        if self.in_head > 0 && self.contains_struct(ty) {
            // no struct literal allowed here; fall back to any place or a helper block is not
            // possible either (blocks in heads inherit the restriction), so use a place if any
            if !places.is_empty() {
                return self.rng.pick(&places).clone();
            }
        }
        self.construct(ty, 0)
    }

    // ------------------------------------------------------------------------------------ exprs

    /// An index expression for an array of length `len`.
    fn gen_index(&mut self, len: usize, depth: u32) -> Expr {
        if len == 0 {
            // every index into an empty array is out of range
            return lit_int(ints::USIZE, self.rng.below(2) as i128);
        }
        let panic_heavy = self.cfg.profile == Profile::PanicHeavy;
        let w_dyn = if panic_heavy { 6 } else { 3 };
        match self.rng.weighted(&[6, w_dyn, 1]) {
            0 => lit_int(ints::USIZE, self.rng.usize_below(len) as i128),
            1 => {
                self.note("dynamic-index");
                // a usize-typed expression depending on variables
                let places = self.places_of(&Ty::Int(ints::USIZE));
                if !places.is_empty() && self.rng.chance(1, 2) {
                    return self.rng.pick(&places).clone();
                }
                let small = [ints::U8, ints::U16, ints::U32];
                let st = *self.rng.pick(&small);
                let inner = self.gen_expr(&Ty::Int(st), depth.saturating_sub(1).min(1));
                let cast = e(ExprKind::Cast(Box::new(inner)), Ty::Int(ints::USIZE));
                if self.rng.chance(1, 2) && len > 1 {
                    // keep it in range (mostly): (x as usize) % len, or k + ((x as usize) % (len - k)) -
                    // an index expression that starts with a number
                    let k = if self.rng.chance(1, 3) { self.rng.usize_below(len) } else { 0 };
                    let rem = e(ExprKind::Bin(BinOp::Rem, Box::new(cast), Box::new(lit_int(ints::USIZE, (len - k) as i128))), Ty::Int(ints::USIZE));
                    if k > 0 || self.rng.chance(1, 6) {
                        self.note("index-expression-starting-with-a-number");
                        e(ExprKind::Bin(BinOp::Add, Box::new(lit_int(ints::USIZE, k as i128)), Box::new(rem)), Ty::Int(ints::USIZE))
                    } else {
                        rem
                    }
                } else {
                    cast
                }
            }
            _ => {
                // constant index, possibly out of range (always panics when evaluated)
                let k = if panic_heavy && self.rng.chance(1, 3) { len + self.rng.usize_below(2) } else { self.rng.usize_below(len) };
                lit_int(ints::USIZE, k as i128)
            }
        }
    }

    fn arith_ops(&self, t: IntTy) -> Vec<(BinOp, u32)> {
        let heavy_ok = t.bits < 64 || self.heavy_budget > 0;
        let md = if heavy_ok { 1 } else { 0 };
        let (w_arith, w_bit) = match self.cfg.profile {
            Profile::PanicHeavy => (10, 2),
            _ => (6, 4),
        };
        vec![
            (BinOp::Add, w_arith),
            (BinOp::Sub, w_arith),
            (BinOp::Mul, w_arith * md),
            (BinOp::Div, (w_arith / 2) * md),
            (BinOp::Rem, (w_arith / 2) * md),
            (BinOp::BitAnd, w_bit),
            (BinOp::BitOr, w_bit),
            (BinOp::BitXor, w_bit),
            (BinOp::Shl, w_bit),
            (BinOp::Shr, w_bit),
        ]
    }

    pub fn gen_expr(&mut self, ty: &Ty, depth: u32) -> Expr {
        if depth == 0 || self.over_budget() {
            return self.leaf(ty);
        }
        self.nodes += 1;
        let tc = self.type_cost(ty);
        self.charge(tc);
        let d = depth - 1;
        // generic productions available for every type
        //  0 leaf, 1 if, 2 match, 3 block, 4 call, 5 projection from a bigger expression, 6 type-specific
        let has_fn = self.fns.iter().any(|f| &f.ret == ty);
        let w = match self.cfg.profile {
            Profile::MatchFocused => [3, 2, 8, 1, if has_fn { 3 } else { 0 }, 2, 8],
            Profile::PanicHeavy => [3, 3, 2, 1, if has_fn { 3 } else { 0 }, 2, 14],
            Profile::MutationHeavy => [4, 3, 2, 3, if has_fn { 4 } else { 0 }, 3, 8],
            Profile::Mixed => [3, 3, 3, 2, if has_fn { 3 } else { 0 }, 3, 10],
        };
        match self.rng.weighted(&w) {
            0 => self.leaf(ty),
            1 => {
                self.note("if-expr");
                self.in_head += 1;
                let c = self.gen_condition(d);
                self.in_head -= 1;
                let t = self.gen_block(ty, d, true);
                let f = self.gen_block(ty, d, true);
                e(ExprKind::If(Box::new(c), t, f), ty.clone())
            }
            2 => self.gen_match(ty, d),
            3 => {
                self.note("block-expr");
                let b = self.gen_block(ty, d, true);
                e(ExprKind::Block(b), ty.clone())
            }
            4 => self.gen_call(ty, d),
            5 => self.gen_projection(ty, d),
            _ => self.gen_specific(ty, d),
        }
    }

    /// The condition of an `if` / the left operand of `&&` / `||`: in 1 of 12 cases a constant (the
    /// other path is dead code, which must stay silent and must not leave traces behind).
    fn gen_condition(&mut self, d: u32) -> Expr {
        if self.rng.chance(1, 12) {
            self.note("constant-condition");
            return e(ExprKind::Lit(Val::Bool(self.rng.bool())), Ty::Bool);
        }
        self.gen_expr(&Ty::Bool, d)
    }

    fn gen_call(&mut self, ty: &Ty, d: u32) -> Expr {
        let cands: Vec<usize> = (0..self.fns.len())
            .filter(|i| &self.fns[*i].ret == ty && (self.in_head == 0 || !self.fns[*i].params.iter().any(|p| self.contains_struct(&p.ty))))
            .collect();
        if cands.is_empty() {
            return self.gen_specific(ty, d);
        }
        // prefer functions not used yet
        let unused: Vec<usize> = cands.iter().copied().filter(|i| !self.fn_used[*i]).collect();
        let fi = if !unused.is_empty() { *self.rng.pick(&unused) } else { *self.rng.pick(&cands) };
        self.fn_used[fi] = true;
        let fc = self.fn_cost[fi];
        self.charge(fc);
        self.note("fn-call");
        let ptys: Vec<Ty> = self.fns[fi].params.iter().map(|p| p.ty.clone()).collect();
        let mut args: Vec<Expr> = vec![];
        for t in &ptys {
            let a = self.gen_expr(t, d.min(2));
            // an argument is sometimes a block that assigns to a variable of the caller first (the
            // arguments are evaluated in the caller's environment, left to right)
            if d >= 1 && self.in_head == 0 && !t.is_unit() && (std::mem::take(&mut self.force_arg_block) || self.rng.chance(1, 5)) {
                self.scopes.push(vec![]);
                let set = self.gen_assign(1);
                self.scopes.pop();
                if let Some(set) = set {
                    self.note("call-argument-block-with-assignment");
                    args.push(e(ExprKind::Block(Block { stmts: vec![set], tail: Some(Box::new(a)) }), t.clone()));
                    continue;
                }
            }
            args.push(a);
        }
        e(ExprKind::Call(fi, args), ty.clone())
    }

    /// Build a bigger value and project `ty` out of it: `[a, b][i]`, `(a, b).0`, `arr_var[i]`.
    fn gen_projection(&mut self, ty: &Ty, d: u32) -> Expr {
        match self.rng.below(3) {
            0 => {
                // index into an array of `ty`
                self.note("array-access");
                let n = 1 + self.rng.usize_below(self.cfg.max_array);
                let aty = Ty::Array(Box::new(ty.clone()), n);
                let places = self.places_of(&aty);
                let arr = if !places.is_empty() && self.rng.chance(2, 3) { self.rng.pick(&places).clone() } else { self.gen_expr(&aty, d) };
                let idx = self.gen_index(n, d);
                if !matches!(idx.kind, ExprKind::Lit(_)) {
                    let c = self.type_cost(&aty) * 4;
                    self.charge(c);
                }
                e(ExprKind::Index(Box::new(arr), Box::new(idx)), ty.clone())
            }
            1 => {
                self.note("tuple-access");
                let n = 2 + self.rng.usize_below(2);
                let k = self.rng.usize_below(n);
                let ts: Vec<Ty> = (0..n).map(|i| if i == k { ty.clone() } else { self.gen_prim_ty() }).collect();
                let t = self.gen_expr(&Ty::Tuple(ts), d);
                e(ExprKind::TupleField(Box::new(t), k), ty.clone())
            }
            _ => {
                // a struct with a field of that type, if any
                let mut cands = vec![];
                for (si, sd) in self.defs.structs.iter().enumerate() {
                    for (fi, (_, ft)) in sd.fields.iter().enumerate() {
                        if ft == ty {
                            cands.push((si, fi));
                        }
                    }
                }
                if cands.is_empty() || self.in_head > 0 {
                    return self.gen_specific(ty, d);
                }
                self.note("struct-access");
                let (si, fi) = *self.rng.pick(&cands);
                let s = self.gen_expr(&Ty::Struct(si), d);
                e(ExprKind::StructField(Box::new(s), fi), ty.clone())
            }
        }
    }

    fn gen_specific(&mut self, ty: &Ty, d: u32) -> Expr {
        match ty {
            Ty::Bool => {
                match self.rng.weighted(&[6, 4, 3, 3, 3, 1, 1]) {
                    0 => {
                        // comparison of integers
                        self.note("comparison");
                        let t = self.gen_int_ty();
                        let op = *self.rng.pick(&[BinOp::Lt, BinOp::Gt, BinOp::Le, BinOp::Ge, BinOp::Eq, BinOp::Ne]);
                        let a = self.gen_expr(&Ty::Int(t), d);
                        let b = self.gen_expr(&Ty::Int(t), d);
                        e(ExprKind::Bin(op, Box::new(a), Box::new(b)), Ty::Bool)
                    }
                    1 => {
                        // equality on any type
                        self.note("equality");
                        let t = self.gen_ty(1);
                        let op = if self.rng.bool() { BinOp::Eq } else { BinOp::Ne };
                        let a = self.gen_expr(&t, d);
                        let b = self.gen_expr(&t, d);
                        e(ExprKind::Bin(op, Box::new(a), Box::new(b)), Ty::Bool)
                    }
                    2 => {
                        self.note("short-circuit");
                        let op = if self.rng.bool() { BinOp::AndAnd } else { BinOp::OrOr };
                        let a = self.gen_condition(d);
                        // the right operand sometimes is a bare comparison of a negated signed variable
                        // (no arithmetic operator in sight, yet `-v` fails for v == MIN: it must stay
                        // silent when the left operand decides)
                        let mut b = None;
                        if self.rng.chance(1, 4) {
                            let signed = [ints::I8, ints::I16, ints::I32, ints::I64];
                            let t = *self.rng.pick(&signed);
                            let places = self.places_of(&Ty::Int(t));
                            if !places.is_empty() {
                                self.note("short-circuit-over-a-negated-variable");
                                let v = self.rng.pick(&places).clone();
                                let neg = e(ExprKind::Un(UnOp::Neg, Box::new(v)), Ty::Int(t));
                                let other = if self.rng.bool() { lit_int(t, self.rng.below(3) as i128) } else { self.rng.pick(&places).clone() };
                                let cmp = *self.rng.pick(&[BinOp::Gt, BinOp::Lt, BinOp::Eq, BinOp::Ne]);
                                b = Some(e(ExprKind::Bin(cmp, Box::new(neg), Box::new(other)), Ty::Bool));
                            }
                        }
                        let b = match b {
                            Some(b) => b,
                            None => self.gen_expr(&Ty::Bool, d),
                        };
                        e(ExprKind::Bin(op, Box::new(a), Box::new(b)), Ty::Bool)
                    }
                    3 => {
                        let op = *self.rng.pick(&[BinOp::BitAnd, BinOp::BitOr, BinOp::BitXor]);
                        let a = self.gen_expr(&Ty::Bool, d);
                        let b = self.gen_expr(&Ty::Bool, d);
                        e(ExprKind::Bin(op, Box::new(a), Box::new(b)), Ty::Bool)
                    }
                    4 => {
                        let a = self.gen_expr(&Ty::Bool, d);
                        e(ExprKind::Un(UnOp::Not, Box::new(a)), Ty::Bool)
                    }
                    5 => {
                        self.note("cast");
                        let t = self.gen_int_ty();
                        let a = self.gen_expr(&Ty::Int(t), d);
                        e(ExprKind::Cast(Box::new(a)), Ty::Bool)
                    }
                    _ => self.leaf(ty),
                }
            }
            Ty::Int(t) => {
                let t = *t;
                let w_neg = if t.signed { 2 } else { 0 };
                match self.rng.weighted(&[14, w_neg, 2, 4, 1]) {
                    0 => {
                        let ops = self.arith_ops(t);
                        let weights: Vec<u32> = ops.iter().map(|o| o.1).collect();
                        let op = ops[self.rng.weighted(&weights)].0;
                        if t.bits == 64 && matches!(op, BinOp::Mul | BinOp::Div | BinOp::Rem) {
                            self.heavy_budget -= 1;
                        }
                        let b = t.bits as u64;
                        self.charge(match op {
                            BinOp::Mul | BinOp::Div | BinOp::Rem => b * b / 10,
                            BinOp::Shl | BinOp::Shr => b / 2,
                            _ => b / 4,
                        });
                        self.note("arithmetic");
                        if op.is_shift() {
                            let a = self.gen_expr(ty, d);
                            let b = if self.rng.chance(2, 3) {
                                let max = if self.cfg.profile == Profile::PanicHeavy { t.bits as u64 + 2 } else { t.bits as u64 };
                                lit_int(ints::U8, self.rng.below(max) as i128)
                            } else {
                                self.gen_expr(&Ty::Int(ints::U8), d)
                            };
                            return e(ExprKind::Bin(op, Box::new(a), Box::new(b)), ty.clone());
                        }
                        // multiplication by a small literal constant (lowered to repeated addition)
                        let const_mul = op == BinOp::Mul && self.rng.chance(1, 3);
                        if const_mul {
                            let c = {
                                let k = 1 + self.rng.below((t.bits as u64).min(12)) as i128;
                                let k = if t.signed && self.rng.chance(1, 3) { -k } else { k };
                                if t.fits(k) {
                                    k
                                } else {
                                    1
                                }
                            };
                            let x = self.gen_expr(ty, d);
                            let (a, b) = if self.rng.bool() { (x, lit_int(t, c)) } else { (lit_int(t, c), x) };
                            return e(ExprKind::Bin(op, Box::new(a), Box::new(b)), ty.clone());
                        }
                        let a = self.gen_expr(ty, d);
                        let b = self.gen_expr(ty, d);
                        e(ExprKind::Bin(op, Box::new(a), Box::new(b)), ty.clone())
                    }
                    1 => {
                        self.note("negation");
                        let a = self.gen_expr(ty, d);
                        e(ExprKind::Un(UnOp::Neg, Box::new(a)), ty.clone())
                    }
                    2 => {
                        let a = self.gen_expr(ty, d);
                        e(ExprKind::Un(UnOp::Not, Box::new(a)), ty.clone())
                    }
                    3 => {
                        self.note("cast");
                        let from = if self.rng.chance(1, 8) { Ty::Bool } else { Ty::Int(self.gen_int_ty()) };
                        let a = self.gen_expr(&from, d);
                        e(ExprKind::Cast(Box::new(a)), ty.clone())
                    }
                    _ => self.leaf(ty),
                }
            }
            _ => {
                if self.in_head > 0 && self.contains_struct(ty) {
                    return self.leaf(ty);
                }
                self.construct(ty, d + 1)
            }
        }
    }

    // ------------------------------------------------------------------------------------ patterns

    /// An irrefutable pattern for a value of type `ty`; declares the bound variables.
    fn gen_irrefutable(&mut self, ty: &Ty, depth: u32) -> Pat {
        match ty {
            Ty::Tuple(ts) if depth > 0 && !ts.is_empty() && self.rng.chance(1, 2) => {
                self.note("tuple-pattern");
                Pat::Tuple(ts.iter().map(|t| self.gen_irrefutable(t, depth - 1)).collect())
            }
            Ty::Struct(si) if depth > 0 && self.rng.chance(1, 2) => {
                self.note("struct-pattern");
                let n = self.defs.structs[*si].fields.len();
                let mut order: Vec<usize> = (0..n).collect();
                self.rng.shuffle(&mut order);
                let rest = n > 1 && self.rng.chance(1, 3);
                if rest {
                    let keep = 1 + self.rng.usize_below(n - 1);
                    order.truncate(keep);
                }
                let fields = order
                    .iter()
                    .map(|fi| {
                        let (fname, ft) = self.defs.structs[*si].fields[*fi].clone();
                        let already_bound_here = self.scopes.last().map(|sc| sc.iter().any(|v| v.name == fname)).unwrap_or(false);
                        if !already_bound_here && self.rng.chance(1, 3) {
                            // shorthand `S { a }` binds the field name itself (never twice in one
                            // pattern / scope: duplicate bindings are not well-formed)
                            self.declare(&fname, ft, false);
                            (*fi, Pat::Bind(fname))
                        } else {
                            (*fi, self.gen_irrefutable(&ft, depth - 1))
                        }
                    })
                    .collect();
                Pat::Struct(*si, fields, rest)
            }
            _ => {
                if self.rng.chance(1, 8) {
                    Pat::Bind("_".into())
                } else {
                    let n = self.pattern_binding_name();
                    self.declare(&n, ty.clone(), false);
                    Pat::Bind(n)
                }
            }
        }
    }

    /// The name of a pattern binding: fresh, or (1 in 5) the name of a variable that is visible
    /// already - the binding shadows it in its arm / loop body / rest of the block only.
    fn pattern_binding_name(&mut self) -> String {
        if self.rng.chance(1, 5) {
            let vars: Vec<String> = self.visible_vars().into_iter().map(|v| v.name).filter(|n| n != "_" && !self.no_assign.contains(n)).collect();
            // (not a name bound earlier in the same pattern: the current scope is the pattern's)
            let current: Vec<String> = self.scopes.last().map(|s| s.iter().map(|v| v.name.clone()).collect()).unwrap_or_default();
            let vars: Vec<String> = vars.into_iter().filter(|n| !current.contains(n)).collect();
            if !vars.is_empty() {
                self.note("pattern-binding-shadows-a-visible-variable");
                return self.rng.pick(&vars).clone();
            }
        }
        self.fresh("v")
    }

    /// A (possibly refutable) pattern; declares bound variables in the current scope.
    fn gen_refutable(&mut self, ty: &Ty, depth: u32) -> Pat {
        match ty {
            Ty::Bool => {
                if self.rng.chance(2, 3) {
                    Pat::Bool(self.rng.bool())
                } else {
                    self.gen_irrefutable(ty, 0)
                }
            }
            Ty::Int(t) => match self.rng.weighted(&[4, 4, 2]) {
                0 => Pat::Int(self.small_or_boundary(*t)),
                1 => {
                    self.note("range-pattern");
                    let a = self.small_or_boundary(*t);
                    let b = self.small_or_boundary(*t);
                    let (lo, hi) = (a.min(b), a.max(b));
                    // exclusive printing needs hi + 1 to be a valid literal
                    let excl = hi < t.max_val() && self.rng.chance(1, 3);
                    Pat::Range(lo, hi, excl)
                }
                _ => self.gen_irrefutable(ty, 0),
            },
            Ty::Tuple(ts) if depth > 0 && !ts.is_empty() => {
                self.note("tuple-pattern");
                Pat::Tuple(ts.iter().map(|t| if self.rng.chance(1, 2) { self.gen_refutable(t, depth - 1) } else { self.gen_irrefutable(t, 0) }).collect())
            }
            Ty::Struct(si) if depth > 0 => {
                self.note("struct-pattern");
                let n = self.defs.structs[*si].fields.len();
                let mut order: Vec<usize> = (0..n).collect();
                self.rng.shuffle(&mut order);
                let rest = n > 1 && self.rng.chance(1, 3);
                if rest {
                    let keep = 1 + self.rng.usize_below(n - 1);
                    order.truncate(keep);
                }
                let fields = order
                    .iter()
                    .map(|fi| {
                        let ft = self.defs.structs[*si].fields[*fi].1.clone();
                        (*fi, if self.rng.chance(1, 2) { self.gen_refutable(&ft, depth - 1) } else { self.gen_irrefutable(&ft, 0) })
                    })
                    .collect();
                Pat::Struct(*si, fields, rest)
            }
            Ty::Enum(ei) => {
                self.note("enum-pattern");
                let vi = self.rng.usize_below(self.defs.enums[*ei].variants.len());
                self.gen_variant_pat(*ei, vi, depth, true)
            }
            _ => self.gen_irrefutable(ty, 0),
        }
    }

    fn gen_variant_pat(&mut self, ei: usize, vi: usize, depth: u32, refutable_fields: bool) -> Pat {
        let pts = self.defs.enums[ei].variants[vi].1.clone();
        let ps = pts
            .iter()
            .map(|t| if refutable_fields && depth > 0 && self.rng.chance(1, 3) { self.gen_refutable(t, depth - 1) } else { self.gen_irrefutable(t, 0) })
            .collect();
        Pat::Enum(ei, vi, ps)
    }

    fn small_or_boundary(&mut self, t: IntTy) -> i128 {
        let cands = [0, 1, 2, 3, 5, 9, 10, t.max_val(), t.max_val() - 1, t.min_val(), t.min_val() + 1, -1, -2, 100, 127, 128, 255];
        let v = *self.rng.pick(&cands);
        if t.fits(v) {
            v
        } else {
            self.rng.below(4) as i128
        }
    }

    /// The body of a match arm: a block, or (sometimes) just a call of a function whose argument is
    /// a block that assigns to a variable of the caller (the arm is "a plain value" syntactically,
    /// its evaluation changes the environment nonetheless).
    fn arm_block(&mut self, ty: &Ty, d: u32) -> Block {
        let has_fn = (0..self.fns.len()).any(|i| &self.fns[i].ret == ty && !self.fns[i].params.is_empty());
        if d >= 1 && has_fn && !ty.is_unit() && self.in_head == 0 && self.rng.chance(1, 6) {
            self.note("match-arm-is-a-call");
            self.force_arg_block = true;
            let call = self.gen_call(ty, d);
            self.force_arg_block = false;
            return Block { stmts: vec![], tail: Some(Box::new(call)) };
        }
        self.gen_block(ty, d, false)
    }

    fn gen_match(&mut self, ty: &Ty, d: u32) -> Expr {
        self.note("match");
        // scrutinee type
        let mut sty = loop {
            let t = self.gen_ty(2);
            if t.matchable() {
                break t;
            }
        };
        // a struct-typed scrutinee must be an existing place (no struct literal in a match head)
        let mut scrut_place = None;
        if self.contains_struct(&sty) {
            let places = self.places_of(&sty);
            if places.is_empty() {
                sty = self.gen_prim_ty();
            } else {
                scrut_place = Some(self.rng.pick(&places).clone());
            }
        }
        self.in_head += 1;
        let scrut = match scrut_place {
            Some(p) => p,
            None => self.gen_expr(&sty, d),
        };
        self.in_head -= 1;
        let mut arms: Vec<(Pat, Block)> = vec![];
        let exhaustive_enum = matches!(sty, Ty::Enum(_)) && self.rng.chance(1, 2);
        if let (true, Ty::Enum(ei)) = (exhaustive_enum, &sty) {
            // one arm per variant, irrefutable sub-patterns, random order
            let nv = self.defs.enums[*ei].variants.len();
            let mut order: Vec<usize> = (0..nv).collect();
            self.rng.shuffle(&mut order);
            for vi in order {
                self.scopes.push(vec![]);
                let p = self.gen_variant_pat(*ei, vi, 1, false);
                let b = self.arm_block(ty, d);
                self.scopes.pop();
                arms.push((p, b));
            }
        } else if sty == Ty::Bool && self.rng.chance(1, 2) {
            let first = self.rng.bool();
            for b in [first, !first] {
                self.scopes.push(vec![]);
                let body = self.arm_block(ty, d);
                self.scopes.pop();
                arms.push((Pat::Bool(b), body));
            }
        } else {
            let n = self.rng.usize_below(4);
            for _ in 0..n {
                self.scopes.push(vec![]);
                let p = self.gen_refutable(&sty, 2);
                let b = self.arm_block(ty, d);
                self.scopes.pop();
                arms.push((p, b));
            }
            // catch-all
            self.scopes.push(vec![]);
            let p = if self.rng.chance(1, 2) {
                Pat::Bind("_".into())
            } else {
                let n = self.pattern_binding_name();
                self.declare(&n, sty.clone(), false);
                Pat::Bind(n)
            };
            let b = self.arm_block(ty, d);
            self.scopes.pop();
            arms.push((p, b));
        }
        e(ExprKind::Match(Box::new(scrut), arms), ty.clone())
    }

    // ------------------------------------------------------------------------------------ blocks / stmts

    /// A block of result type `ty`. `own_scope`: push a fresh scope (false when the caller did).
    pub fn gen_block(&mut self, ty: &Ty, depth: u32, own_scope: bool) -> Block {
        if own_scope {
            self.scopes.push(vec![]);
        }
        let max = if depth == 0 || self.over_budget() { 0 } else { self.cfg.max_stmts.min(1 + depth as usize * 2) };
        let n = if max == 0 { 0 } else { self.rng.usize_below(max + 1) };
        let mut stmts = vec![];
        for _ in 0..n {
            if let Some(s) = self.gen_stmt(depth) {
                stmts.push(s);
            }
        }
        let tail = if ty.is_unit() { None } else { Some(Box::new(self.gen_expr(ty, depth))) };
        if tail.is_none() {
            Self::fix_unit_tail(&mut stmts);
        }
        if own_scope {
            self.scopes.pop();
        }
        Block { stmts, tail }
    }

    /// In Garble the type of a block is the type of its last statement if that is an expression
    /// statement (with or without `;`), so a unit block must not end with a value-typed one.
    fn fix_unit_tail(stmts: &mut Vec<Stmt>) {
        if let Some(Stmt { kind: StmtKind::Expr(x), .. }) = stmts.last() {
            if !x.ty.is_unit() {
                // keep the expression (it may hold the only call of a helper function) but bind it
                let Some(Stmt { kind: StmtKind::Expr(x), .. }) = stmts.pop() else { unreachable!() };
                let ty = x.ty.clone();
                stmts.push(Stmt::new(StmtKind::Let(Pat::Bind("_".into()), ty, x, true)));
            }
        }
    }

    fn unit_block(&mut self, depth: u32) -> Block {
        self.scopes.push(vec![]);
        let n = 1 + self.rng.usize_below(3);
        let mut stmts = vec![];
        for _ in 0..n {
            // prefer assignments inside conditional code
            let s = if self.rng.chance(2, 3) { self.gen_assign(depth) } else { self.gen_stmt(depth) };
            if let Some(s) = s {
                stmts.push(s);
            }
        }
        self.scopes.pop();
        Self::fix_unit_tail(&mut stmts);
        Block { stmts, tail: None }
    }

    /// All assignable places: mutable visible variables with accessor paths.
    fn gen_assign(&mut self, depth: u32) -> Option<Stmt> {
        if self.pure_ctx > 0 {
            return None;
        }
        if self.no_assign.iter().any(|n| n == "*") {
            return None;
        }
        let muts: Vec<Var> = self.visible_vars().into_iter().filter(|v| v.mutable && !self.no_assign.contains(&v.name)).collect();
        if muts.is_empty() {
            return None;
        }
        self.note("assignment");
        let v = self.rng.pick(&muts).clone();
        let d = depth.saturating_sub(1).min(2);
        let mut accs = vec![];
        let mut index_positions: Vec<(usize, usize)> = vec![];
        let mut cur = v.ty.clone();
        loop {
            let go_deeper = match &cur {
                Ty::Array(..) | Ty::Tuple(_) | Ty::Struct(_) => self.rng.chance(2, 3) && accs.len() < 3,
                _ => false,
            };
            if !go_deeper {
                break;
            }
            match cur.clone() {
                Ty::Array(et, n) => {
                    self.note("assign-through-index");
                    let idx = self.gen_index(n, d);
                    if !matches!(idx.kind, ExprKind::Lit(_)) {
                        let c = self.type_cost(&cur) * 24;
                        self.charge(c);
                    }
                    // the index expression sometimes is a block that first assigns to another element
                    // of the same array (the place must be read after its index expressions ran)
                    let idx = if n > 0 && self.in_head == 0 && !et.is_unit() && !self.contains_struct(&et) && self.rng.chance(1, 10) {
                        self.note("index-expression-assigns-to-the-assigned-variable");
                        let mut inner_accs = accs.clone();
                        inner_accs.push(Acc::Index(lit_int(ints::USIZE, self.rng.usize_below(n) as i128)));
                        let v2 = self.gen_expr(&et, 1);
                        let set = Stmt::new(StmtKind::Assign { var: v.name.clone(), accs: inner_accs, op: None, value: v2, target_ty: (*et).clone() });
                        e(ExprKind::Block(Block { stmts: vec![set], tail: Some(Box::new(idx)) }), Ty::Int(ints::USIZE))
                    } else {
                        idx
                    };
                    index_positions.push((accs.len(), n));
                    accs.push(Acc::Index(idx));
                    cur = *et;
                }
                Ty::Tuple(ts) => {
                    if ts.is_empty() {
                        break;
                    }
                    self.note("assign-through-tuple-field");
                    let k = self.rng.usize_below(ts.len());
                    accs.push(Acc::Tuple(k));
                    cur = ts[k].clone();
                }
                Ty::Struct(si) => {
                    self.note("assign-through-struct-field");
                    let n = self.defs.structs[si].fields.len();
                    if n == 0 {
                        break;
                    }
                    let k = self.rng.usize_below(n);
                    accs.push(Acc::Field(si, k));
                    cur = self.defs.structs[si].fields[k].1.clone();
                }
                _ => break,
            }
        }
        // two index expressions of one place that interact: the earlier one is a block that assigns a
        // variable, the later one reads it (the index expressions of a place run in source order)
        if index_positions.len() >= 2 && self.in_head == 0 && self.rng.chance(1, 3) {
            let (first, _) = index_positions[0];
            let (later, later_len) = index_positions[1 + self.rng.usize_below(index_positions.len() - 1)];
            let counters: Vec<Var> = muts.iter().filter(|c| c.name != v.name && matches!(c.ty, Ty::Int(_))).cloned().collect();
            // (the later index expression is replaced: only one that is a literal or a variable, so
            // that no call of a helper function - which has to stay used - is dropped with it)
            let replaceable = matches!(&accs[later], Acc::Index(i) if matches!(i.kind, ExprKind::Lit(_) | ExprKind::Var(_)));
            if later_len > 0 && !counters.is_empty() && replaceable {
                self.note("index-expressions-of-one-place-interact");
                let c = self.rng.pick(&counters).clone();
                let new_val = self.gen_expr(&c.ty, 1);
                let set = Stmt::new(StmtKind::Assign { var: c.name.clone(), accs: vec![], op: None, value: new_val, target_ty: c.ty.clone() });
                let Acc::Index(old_first) = accs[first].clone() else { unreachable!() };
                accs[first] = Acc::Index(e(ExprKind::Block(Block { stmts: vec![set], tail: Some(Box::new(old_first)) }), Ty::Int(ints::USIZE)));
                let read = e(ExprKind::Cast(Box::new(e(ExprKind::Var(c.name.clone()), c.ty.clone()))), Ty::Int(ints::USIZE));
                accs[later] = Acc::Index(e(ExprKind::Bin(BinOp::Rem, Box::new(read), Box::new(lit_int(ints::USIZE, later_len as i128))), Ty::Int(ints::USIZE)));
                let cost = self.type_cost(&v.ty) * 24;
                self.charge(cost);
            }
        }
        if self.in_head > 0 && self.contains_struct(&cur) {
            // a struct literal cannot be written inside an if / match / for head
            return None;
        }
        // compound assignment for integers / bools
        let op = match &cur {
            Ty::Int(t) if self.rng.chance(2, 5) => {
                let ops = self.arith_ops(*t);
                let weights: Vec<u32> = ops.iter().map(|o| o.1).collect();
                let op = ops[self.rng.weighted(&weights)].0;
                if t.bits == 64 && matches!(op, BinOp::Mul | BinOp::Div | BinOp::Rem) {
                    self.heavy_budget -= 1;
                }
                let b = t.bits as u64;
                self.charge(match op {
                    BinOp::Mul | BinOp::Div | BinOp::Rem => b * b / 10,
                    _ => b / 2,
                });
                Some(op)
            }
            Ty::Bool if self.rng.chance(1, 4) => Some(*self.rng.pick(&[BinOp::BitAnd, BinOp::BitOr, BinOp::BitXor])),
            _ => None,
        };
        if op.is_some() {
            self.note("compound-assignment");
        }
        // generator mask for known finding KF-C14-2: a compound assignment is lowered by copying the
        // place (`x.acc = x.acc op v`), so the place is read before and written after `v` runs, with
        // its index expressions evaluated twice: `v` then neither assigns to `x` nor (if an index is
        // not a literal) to anything else. Plain assignments need no mask.
        // (no longer in force: KF-C14-2 was repaired, the indices of the place are evaluated once)
        let masked = false;
        let mask_all = false;
        if masked {
            self.no_assign.push(if mask_all { "*".to_string() } else { v.name.clone() });
        }
        let value = match op {
            Some(o) if o.is_shift() => {
                let bits = cur.int().bits as u64;
                if self.rng.chance(2, 3) {
                    lit_int(ints::U8, self.rng.below(bits) as i128)
                } else {
                    self.gen_expr(&Ty::Int(ints::U8), d)
                }
            }
            _ => self.gen_expr(&cur, d),
        };
        if masked {
            self.no_assign.pop();
        }
        // compound assignment whose index is a mutable variable: the value sometimes reassigns that
        // variable (the place must still be the one the old index denotes, read and written once)
        let mut value = value;
        if op.is_some() && self.in_head == 0 {
            let muts: Vec<String> = self.visible_vars().into_iter().filter(|x| x.mutable && x.ty == Ty::Int(ints::USIZE)).map(|x| x.name).collect();
            let idx_var = accs.iter().find_map(|a| match a {
                Acc::Index(i) => match &i.kind {
                    ExprKind::Var(n) if muts.contains(n) => Some(n.clone()),
                    _ => None,
                },
                _ => None,
            });
            if let Some(n) = idx_var {
                if self.rng.chance(1, 2) {
                    self.note("compound-assignment-whose-value-reassigns-its-index");
                    let vty = value.ty.clone();
                    let set = Stmt::new(StmtKind::Assign { var: n, accs: vec![], op: None, value: lit_int(ints::USIZE, self.rng.below(2) as i128), target_ty: Ty::Int(ints::USIZE) });
                    value = e(ExprKind::Block(Block { stmts: vec![set], tail: Some(Box::new(value)) }), vty);
                }
            }
        }
        // ... or the literal index of a compound assignment is moved into a fresh mutable variable that
        // the value then reassigns: `{ let mut j: usize = 1usize; x[j] op= { j = 0usize; v }; }`
        if op.is_some() && self.in_head == 0 && self.rng.chance(1, 5) {
            let mut accs = accs;
            let lit_pos = accs.iter().position(|a| matches!(a, Acc::Index(i) if matches!(i.kind, ExprKind::Lit(_))));
            if let Some(pos) = lit_pos {
                self.note("compound-assignment-whose-value-reassigns-its-index");
                let mut j = self.fresh("m");
                while self.visible_vars().iter().any(|x| x.name == j) {
                    j = self.fresh("m");
                }
                let Acc::Index(old_idx) = std::mem::replace(&mut accs[pos], Acc::Index(e(ExprKind::Var(j.clone()), Ty::Int(ints::USIZE)))) else { unreachable!() };
                let vty = value.ty.clone();
                let set = Stmt::new(StmtKind::Assign { var: j.clone(), accs: vec![], op: None, value: lit_int(ints::USIZE, self.rng.below(2) as i128), target_ty: Ty::Int(ints::USIZE) });
                let value = e(ExprKind::Block(Block { stmts: vec![set], tail: Some(Box::new(value)) }), vty);
                let block = Block {
                    stmts: vec![
                        Stmt::new(StmtKind::LetMut(j, Ty::Int(ints::USIZE), old_idx, true)),
                        Stmt::new(StmtKind::Assign { var: v.name, accs, op, value, target_ty: cur }),
                    ],
                    tail: None,
                };
                return Some(Stmt::new(StmtKind::Expr(e(ExprKind::Block(block), Ty::unit()))));
            }
            return Some(Stmt::new(StmtKind::Assign { var: v.name, accs, op, value, target_ty: cur }));
        }
        Some(Stmt::new(StmtKind::Assign { var: v.name, accs, op, value, target_ty: cur }))
    }

    pub fn gen_stmt(&mut self, depth: u32) -> Option<Stmt> {
        if self.over_budget() {
            return None;
        }
        self.nodes += 1;
        self.charge(1);
        let d = depth.saturating_sub(1);
        let mutation = self.cfg.profile == Profile::MutationHeavy;
        //  0 let, 1 let mut, 2 assign, 3 if-stmt, 4 match-stmt, 5 for, 6 expr-stmt, 7 let-destructure, 8 copy-then-mutate
        // rarely: an assignment through two accessors into an array of length zero (guarded by a
        // condition; it fails with OutOfBounds when executed, the compiler must cope with the empty
        // element it reads on the way)
        if self.in_head == 0 && self.rng.chance(1, 70) {
            self.note("assignment-into-empty-array");
            self.in_head += 1;
            let c = self.gen_expr(&Ty::Bool, 1);
            self.in_head -= 1;
            let p1 = self.gen_prim_ty();
            let p2 = self.gen_prim_ty();
            let (elem_ty, acc, target_ty) = if self.rng.bool() {
                (Ty::Tuple(vec![p1.clone(), p2.clone()]), Acc::Tuple(1), p2.clone())
            } else {
                (Ty::Array(Box::new(p1.clone()), 2), Acc::Index(lit_int(ints::USIZE, self.rng.below(2) as i128)), p1.clone())
            };
            let aty = Ty::Array(Box::new(elem_ty.clone()), 0);
            // (a name that shadows nothing: index and value below may mention any visible variable)
            let mut name = self.fresh("m");
            while self.visible_vars().iter().any(|v| v.name == name) {
                name = self.fresh("m");
            }
            let elem = self.construct(&elem_ty, 0);
            let init = e(ExprKind::ArrayRepeat(Box::new(elem), 0), aty.clone());
            let idx = if self.rng.bool() { lit_int(ints::USIZE, self.rng.below(2) as i128) } else { self.gen_index(1, 1) };
            let value = self.gen_expr(&target_ty, 1);
            let block = Block {
                stmts: vec![
                    Stmt::new(StmtKind::LetMut(name.clone(), aty, init, true)),
                    Stmt::new(StmtKind::Assign { var: name, accs: vec![Acc::Index(idx), acc], op: None, value, target_ty }),
                ],
                tail: None,
            };
            return Some(Stmt::new(StmtKind::Expr(e(ExprKind::If(Box::new(c), block, Block::default()), Ty::unit()))));
        }
        let w: [u32; 9] = if mutation { [3, 5, 8, 4, 2, 3, 1, 2, 4] } else { [6, 4, 4, 3, 2, 2, 1, 2, 1] };
        match self.rng.weighted(&w) {
            0 => {
                self.note("let");
                let ty = self.gen_ty(2);
                let init = self.gen_expr(&ty, d);
                // occasionally shadow an existing variable
                let name = if self.rng.chance(1, 10) {
                    let vs = self.visible_vars();
                    if vs.is_empty() || vs[0].name == "_" {
                        self.fresh("v")
                    } else {
                        self.note("shadowing");
                        self.rng.pick(&vs).name.clone()
                    }
                } else {
                    self.fresh("v")
                };
                self.declare(&name, ty.clone(), false);
                Some(Stmt::new(StmtKind::Let(Pat::Bind(name), ty, init, true)))
            }
            1 => {
                self.note("let-mut");
                let ty = self.gen_ty(2);
                // occasionally `let mut x = <expr mentioning x>`: the new binding shadows a variable
                // of the same name that its own initializer still refers to
                let shadowed: Vec<Var> = self.visible_vars().into_iter().filter(|v| v.name != "_" && !matches!(v.ty, Ty::Array(..)) || false).collect();
                if self.in_head == 0 && !shadowed.is_empty() && self.rng.chance(1, 8) {
                    let old = self.rng.pick(&shadowed).clone();
                    self.note("let-mut-shadowing-its-own-initializer");
                    let init = match &old.ty {
                        Ty::Int(t) if self.rng.bool() => {
                            let other = self.gen_expr(&old.ty, 1);
                            e(ExprKind::Bin(if t.signed { BinOp::BitXor } else { BinOp::BitAnd }, Box::new(e(ExprKind::Var(old.name.clone()), old.ty.clone())), Box::new(other)), old.ty.clone())
                        }
                        _ => e(ExprKind::Var(old.name.clone()), old.ty.clone()),
                    };
                    self.declare(&old.name, old.ty.clone(), true);
                    return Some(Stmt::new(StmtKind::LetMut(old.name, old.ty, init, true)));
                }
                let init = self.gen_expr(&ty, d);
                let name = self.fresh("m");
                self.declare(&name, ty.clone(), true);
                Some(Stmt::new(StmtKind::LetMut(name, ty, init, true)))
            }
            2 => self.gen_assign(depth),
            3 => {
                self.note("if-stmt");
                self.in_head += 1;
                let c = self.gen_condition(d);
                self.in_head -= 1;
                let t = self.unit_block(d);
                let f = if self.rng.chance(1, 2) { self.unit_block(d) } else { Block::default() };
                Some(Stmt::new(StmtKind::Expr(e(ExprKind::If(Box::new(c), t, f), Ty::unit()))))
            }
            4 => {
                self.note("match-stmt");
                let m = self.gen_match_stmt(d);
                Some(Stmt::new(StmtKind::Expr(m)))
            }
            5 => {
                if self.loop_depth >= 2 {
                    return None;
                }
                self.note("for");
                let mut n = 1 + self.rng.usize_below(self.cfg.max_array);
                let mut et = self.gen_ty(1);
                // often loop over an array that is already in scope (whatever its element type)
                let arrays: Vec<Var> = self.visible_vars().into_iter().filter(|v| v.name != "_" && matches!(v.ty, Ty::Array(..))).collect();
                if !arrays.is_empty() && self.rng.chance(1, 2) {
                    if let Ty::Array(e0, n0) = &self.rng.pick(&arrays).ty {
                        et = (**e0).clone();
                        n = *n0;
                    }
                }
                let mut aty = Ty::Array(Box::new(et.clone()), n);
                let mut places = self.places_of(&aty);
                if self.contains_struct(&et) && places.is_empty() {
                    et = self.gen_prim_ty();
                    aty = Ty::Array(Box::new(et.clone()), n);
                    places = self.places_of(&aty);
                }
                self.in_head += 1;
                let iter = if !places.is_empty() && (self.contains_struct(&et) || self.rng.chance(2, 3)) {
                    self.rng.pick(&places).clone()
                } else {
                    self.gen_expr(&aty, d.min(2))
                };
                self.in_head -= 1;
                self.scopes.push(vec![]);
                let pat = self.gen_irrefutable(&et, 1);
                self.loop_depth += 1;
                let saved_mult = self.mult;
                self.mult = self.mult.saturating_mul(n as u64);
                let nb = 1 + self.rng.usize_below(3);
                let mut body = vec![];
                for _ in 0..nb {
                    let s = if self.rng.chance(1, 2) { self.gen_assign(d) } else { self.gen_stmt(d) };
                    if let Some(s) = s {
                        body.push(s);
                    }
                }
                self.loop_depth -= 1;
                self.mult = saved_mult;
                self.scopes.pop();
                Some(Stmt::new(StmtKind::For { pat, iter, body }))
            }
            6 => {
                let ty = self.gen_ty(1);
                let ex = self.gen_expr(&ty, d);
                // a bare if/match/block in statement position is printed without `;`, which is only
                // well-typed as a statement in the middle of a block if we do not care about its
                // value: fine for Garble
                Some(Stmt::new(StmtKind::Expr(ex)))
            }
            7 => {
                self.note("let-destructuring");
                let ty = if self.rng.bool() || self.defs.structs.is_empty() || self.in_head > 0 {
                    let n = 2 + self.rng.usize_below(2);
                    Ty::Tuple((0..n).map(|_| self.gen_ty(1)).collect())
                } else {
                    Ty::Struct(self.rng.usize_below(self.defs.structs.len()))
                };
                let init = self.gen_expr(&ty, d);
                let pat = self.gen_irrefutable(&ty, 2);
                Some(Stmt::new(StmtKind::Let(pat, ty, init, self.rng.chance(3, 4))))
            }
            _ => {
                // copy an existing variable into a new mutable one (aliasing probe)
                let vs: Vec<Var> = self.visible_vars().into_iter().filter(|v| v.name != "_").collect();
                if vs.is_empty() {
                    return None;
                }
                self.note("copy-then-mutate");
                let v = self.rng.pick(&vs).clone();
                let name = self.fresh("m");
                self.declare(&name, v.ty.clone(), true);
                Some(Stmt::new(StmtKind::LetMut(name, v.ty.clone(), e(ExprKind::Var(v.name), v.ty), true)))
            }
        }
    }

    fn gen_match_stmt(&mut self, d: u32) -> Expr {
        // a match whose arms are unit blocks with assignments
        let sty = loop {
            let t = self.gen_ty(1);
            if t.matchable() && !self.contains_struct(&t) {
                break t;
            }
        };
        self.in_head += 1;
        let scrut = self.gen_expr(&sty, d);
        self.in_head -= 1;
        let mut arms = vec![];
        let n = self.rng.usize_below(3);
        for _ in 0..n {
            self.scopes.push(vec![]);
            let p = self.gen_refutable(&sty, 1);
            let b = self.unit_block(d);
            self.scopes.pop();
            arms.push((p, b));
        }
        self.scopes.push(vec![]);
        let b = self.unit_block(d);
        self.scopes.pop();
        arms.push((Pat::Bind("_".into()), b));
        e(ExprKind::Match(Box::new(scrut), arms), Ty::unit())
    }

    // ------------------------------------------------------------------------------------ functions / program

    /// 0-2 top-level constants. Their names are taken from the pool of parameter / local names, so
    /// that parameters and locals regularly shadow a constant (and callees that use the constant are
    /// called from scopes in which it is shadowed).
    fn gen_consts(&mut self) {
        if !self.rng.chance(1, 3) {
            return;
        }
        let n = 1 + self.rng.usize_below(2);
        let mut names = vec!["p1", "p2", "p3", "v3", "v4", "v5", "m4", "m5", "m6", "u0", "K"];
        self.rng.shuffle(&mut names);
        for name in names.into_iter().take(n) {
            let ty = self.gen_prim_ty();
            let val = super::ty::gen_val(self.rng, &ty, &self.defs);
            self.defs.consts.push((name.to_string(), ty, val));
        }
    }

    fn gen_fn(&mut self, name: String, is_pub: bool) -> FnDef {
        let saved = std::mem::take(&mut self.scopes);
        // outermost scope of every function: the constants
        self.scopes.push(self.defs.consts.iter().map(|(n, t, _)| Var { name: n.clone(), ty: t.clone(), mutable: false }).collect());
        // names are numbered per function in most programs, so that parameters and locals of a
        // callee collide with the names of its callers' variables (scoping bugs only show then)
        if self.rng.chance(3, 4) {
            self.next_id = 0;
        }
        self.cost = 0;
        self.mult = 1;
        self.heavy_budget = 1;
        let np = 1 + self.rng.usize_below(self.cfg.max_params);
        let mut params = vec![];
        self.scopes.push(vec![]);
        for _ in 0..np {
            let mut ty = self.gen_ty(2);
            if params.is_empty() && ty.bits(&self.defs) == 0 {
                // a function whose parameters are all zero-sized cannot be compiled (by design)
                ty = self.gen_prim_ty();
            }
            let pname = self.fresh("p");
            let mutable = self.rng.chance(1, 3);
            self.declare(&pname, ty.clone(), mutable);
            params.push(Param { name: pname, ty, mutable });
        }
        let ret = self.gen_ty(2);
        let depth = if is_pub { self.cfg.max_depth } else { self.cfg.max_depth.saturating_sub(1).max(1) };
        if is_pub {
            let (body, ret_ty) = self.gen_main_body(&ret, depth);
            self.scopes = saved;
            return FnDef { name, is_pub, params, ret: ret_ty, body };
        }
        let mut body = self.gen_block(&ret, depth, true);
        let mut ret_ty = ret;
        if false {
            // make sure every helper function is used
            for fi in 0..self.fns.len() {
                if !self.fn_used[fi] {
                    self.fn_used[fi] = true;
                    let f = self.fns[fi].clone();
                    let args = f.params.iter().map(|p| self.leaf_in_scope0(&p.ty)).collect();
                    let call = e(ExprKind::Call(fi, args), f.ret.clone());
                    body.stmts.push(Stmt::new(StmtKind::Let(Pat::Bind(format!("u{fi}")), f.ret.clone(), call, true)));
                }
            }
            if self.cfg.return_all_vars {
                // return (result, all variables of the parameter scope): any unintended change of a
                // variable becomes observable
                let vars: Vec<Var> = self.scopes[0].iter().filter(|v| v.name != "_").cloned().collect();
                let mut items = vec![];
                let mut tys = vec![];
                if let Some(t) = body.tail.take() {
                    tys.push(t.ty.clone());
                    items.push(*t);
                }
                for v in vars.iter().take(6) {
                    tys.push(v.ty.clone());
                    items.push(e(ExprKind::Var(v.name.clone()), v.ty.clone()));
                }
                if items.len() >= 2 {
                    ret_ty = Ty::Tuple(tys.clone());
                    body.tail = Some(Box::new(e(ExprKind::TupleLit(items), Ty::Tuple(tys))));
                } else if let Some(only) = items.pop() {
                    ret_ty = only.ty.clone();
                    body.tail = Some(Box::new(only));
                }
            }
        }
        self.scopes = saved;
        FnDef { name, is_pub, params, ret: ret_ty, body }
    }

    fn gen_main_body(&mut self, ret: &Ty, depth: u32) -> (Block, Ty) {
        self.scopes.push(vec![]);
        let n = 1 + self.rng.usize_below(self.cfg.max_stmts);
        let mut stmts = vec![];
        for _ in 0..n {
            if let Some(s) = self.gen_stmt(depth) {
                stmts.push(s);
            }
        }
        // make sure every helper function is used (an unused function is a type error)
        for fi in 0..self.fns.len() {
            if !self.fn_used[fi] {
                self.fn_used[fi] = true;
                let fc = self.fn_cost[fi];
                self.charge(fc);
                let f = self.fns[fi].clone();
                let args = f.params.iter().map(|p| self.leaf(&p.ty)).collect();
                let call = e(ExprKind::Call(fi, args), f.ret.clone());
                let name = format!("u{fi}");
                self.declare(&name, f.ret.clone(), false);
                stmts.push(Stmt::new(StmtKind::Let(Pat::Bind(name), f.ret.clone(), call, true)));
            }
        }
        let mut tail = self.gen_expr(ret, depth);
        let mut ret_ty = ret.clone();
        if self.cfg.return_all_vars {
            // return (result, all visible variables): any unintended change becomes observable
            let vars: Vec<Var> = self.visible_vars().into_iter().filter(|v| v.name != "_").collect();
            let mut items = vec![tail];
            let mut tys = vec![ret.clone()];
            for v in vars.iter().take(7) {
                tys.push(v.ty.clone());
                items.push(e(ExprKind::Var(v.name.clone()), v.ty.clone()));
            }
            if items.len() >= 2 {
                ret_ty = Ty::Tuple(tys.clone());
                tail = e(ExprKind::TupleLit(items), Ty::Tuple(tys));
            } else {
                tail = items.pop().unwrap();
            }
        }
        self.scopes.pop();
        (Block { stmts, tail: Some(Box::new(tail)) }, ret_ty)
    }

    /// leaf built only from the parameter scope of the function being finished (used for the
    /// forced helper calls appended at the end of main, where inner-scope variables are gone)
    fn leaf_in_scope0(&mut self, ty: &Ty) -> Expr {
        let saved_head = self.in_head;
        let keep: Vec<Vec<Var>> = self.scopes.drain(1..).collect();
        let x = self.leaf(ty);
        self.scopes.extend(keep);
        self.in_head = saved_head;
        x
    }

    pub fn gen_program(mut self) -> (Program, std::collections::BTreeSet<&'static str>) {
        self.gen_defs();
        self.gen_consts();
        let nf = self.rng.usize_below(self.cfg.max_fns + 1);
        for i in 0..nf {
            // helper functions get a fraction of the budget (they are inlined at every call site)
            let full = self.cfg.max_cost;
            self.cfg.max_cost = full / 6;
            let f = self.gen_fn(format!("f{i}"), false);
            self.cfg.max_cost = full;
            let c = self.cost.max(1);
            self.fns.push(f);
            self.fn_cost.push(c);
            self.fn_used.push(false);
        }
        let main = self.gen_fn("main".into(), true);
        self.fns.push(main);
        (Program { defs: self.defs, fns: self.fns }, self.used)
    }
}

/// Argument tuples for `main`: boundary-biased values.
pub fn gen_args(rng: &mut Rng, prog: &Program) -> Vec<Val> {
    prog.main().params.iter().map(|p| super::ty::gen_val(rng, &p.ty, &prog.defs)).collect()
}

// ---------------------------------------------------------------------------------------------
// for-join programs (C13)

impl<'r> Gen<'r> {
    /// `pub fn main(a: [(K, PA..); n], b: [(K, PB..); m]) -> (accumulators..)` with one for-join
    /// loop whose body updates the accumulators (order-sensitive, possibly panicking).
    pub fn gen_join_program(mut self, n: usize, m: usize) -> Program {
        let key: Ty = crate::props::c13::join_key_type(self.rng);
        let mut side = |g: &mut Self| -> Ty {
            let k = 1 + g.rng.usize_below(2); // no 1-tuples (not expressible as literals)
            let mut fields = vec![key.clone()];
            for _ in 0..k {
                fields.push(g.gen_prim_ty());
            }
            Ty::Tuple(fields)
        };
        let ea = side(&mut self);
        let eb = side(&mut self);
        let ta = Ty::Array(Box::new(ea.clone()), n);
        let tb = Ty::Array(Box::new(eb.clone()), m);
        self.scopes.push(vec![]);
        self.declare("a", ta.clone(), false);
        self.declare("b", tb.clone(), false);
        let mut stmts = vec![];
        // accumulators (one of them sometimes is a `mut` parameter of main: always when both arrays
        // are empty, main needs some input bits)
        let n_acc = 1 + self.rng.usize_below(3);
        let mut accs = vec![];
        let mut_param: Option<Ty> = if n + m == 0 || self.rng.chance(1, 2) { Some(Ty::Int(self.gen_int_ty())) } else { None };
        if let Some(ty) = &mut_param {
            self.note("for-join-with-mut-parameter");
            self.declare("accp", ty.clone(), true);
            accs.push(("accp".to_string(), ty.clone()));
        }
        for i in 0..n_acc {
            let ty = if i == 0 { Ty::Int(self.gen_int_ty()) } else { self.gen_ty(1) };
            let name = format!("acc{i}");
            let init = self.construct(&ty, 0);
            self.declare(&name, ty.clone(), true);
            stmts.push(Stmt::new(StmtKind::LetMut(name.clone(), ty.clone(), init, true)));
            accs.push((name, ty));
        }
        // in a third of the programs the loop runs inside a block in which `acc0` is shadowed by a new
        // binding of the same name (the loop updates the inner one, its final value is carried out
        // through another variable; the outer `acc0` must come out unchanged)
        let shadow: Option<Ty> = if self.rng.chance(1, 3) { accs.iter().find(|(n, _)| n == "acc0").map(|(_, t)| t.clone()) } else { None };
        let mut inner_stmts: Vec<Stmt> = vec![];
        if let Some(t0) = &shadow {
            self.note("for-join-under-a-shadowing-binding");
            let init = self.construct(t0, 0);
            self.declare("carry", t0.clone(), true);
            stmts.push(Stmt::new(StmtKind::LetMut("carry".into(), t0.clone(), init, true)));
            self.scopes.push(vec![]);
            let init2 = self.construct(t0, 0);
            self.declare("acc0", t0.clone(), true);
            inner_stmts.push(Stmt::new(StmtKind::LetMut("acc0".into(), t0.clone(), init2, true)));
        }
        // the loop
        self.scopes.push(vec![]);
        let pty = Ty::Tuple(vec![ea.clone(), eb.clone()]);
        let whole = self.rng.chance(1, 2);
        let pat = if whole {
            self.declare("jr", pty.clone(), false);
            Pat::Bind("jr".into())
        } else {
            self.gen_irrefutable(&pty, 2)
        };
        let saved_mult = self.mult;
        self.mult = (n + m) as u64;
        let nb = 1 + self.rng.usize_below(3);
        let mut body = vec![];
        if whole {
            // an order- and key-sensitive update of the first accumulator:
            //   acc0 = ((acc0 ^ (key as T)) << 1) ^ (other side's key as T)
            let (acc_name, acc_ty) = accs[0].clone();
            let key_of = |side: usize| -> Expr {
                let pair = e(ExprKind::Var("jr".into()), pty.clone());
                let elem_ty = if side == 0 { ea.clone() } else { eb.clone() };
                let el = e(ExprKind::TupleField(Box::new(pair), side), elem_ty);
                let mut k = e(ExprKind::TupleField(Box::new(el), 0), key.clone());
                if let Ty::Tuple(ts) = &key {
                    k = e(ExprKind::TupleField(Box::new(k), 1), ts[1].clone());
                }
                if let Ty::Array(et, len) = &key {
                    k = e(ExprKind::Index(Box::new(k), Box::new(lit_int(ints::USIZE, (*len - 1) as i128))), (**et).clone());
                }
                e(ExprKind::Cast(Box::new(k)), acc_ty.clone())
            };
            let acc = e(ExprKind::Var(acc_name.clone()), acc_ty.clone());
            let x1 = e(ExprKind::Bin(BinOp::BitXor, Box::new(acc), Box::new(key_of(0))), acc_ty.clone());
            let sh = e(ExprKind::Bin(BinOp::Shl, Box::new(x1), Box::new(lit_int(ints::U8, 1))), acc_ty.clone());
            let x2 = e(ExprKind::Bin(BinOp::BitXor, Box::new(sh), Box::new(key_of(1))), acc_ty.clone());
            body.push(Stmt::new(StmtKind::Assign { var: acc_name, accs: vec![], op: None, value: x2, target_ty: acc_ty }));
        }
        for _ in 0..nb {
            let s = if self.rng.chance(3, 4) { self.gen_assign(2) } else { self.gen_stmt(2) };
            if let Some(s) = s {
                body.push(s);
            }
        }
        self.mult = saved_mult;
        self.scopes.pop();
        self.note("for-join");
        // the joined arrays are sometimes given as block expressions that can fail before the loop
        // starts (smallest key of a divided by / reduced by the smallest key of b)
        let mut head_a = e(ExprKind::Var("a".into()), ta.clone());
        let mut head_b = e(ExprKind::Var("b".into()), tb.clone());
        if let Ty::Int(kt) = &key {
            if n > 0 && m > 0 && self.rng.chance(1, 3) {
                self.note("for-join-with-failing-head");
                let first_key = |arr: &str, aty: &Ty, ety: &Ty| -> Expr {
                    let el = e(ExprKind::Index(Box::new(e(ExprKind::Var(arr.into()), aty.clone())), Box::new(lit_int(ints::USIZE, 0))), ety.clone());
                    e(ExprKind::TupleField(Box::new(el), 0), Ty::Int(*kt))
                };
                let op = if self.rng.bool() { BinOp::Div } else { BinOp::Sub };
                let probe = e(ExprKind::Bin(op, Box::new(first_key("a", &ta, &ea)), Box::new(first_key("b", &tb, &eb))), Ty::Int(*kt));
                let stmt = Stmt::new(StmtKind::Let(Pat::Bind("_".into()), Ty::Int(*kt), probe, true));
                if self.rng.bool() {
                    head_a = e(ExprKind::Block(Block { stmts: vec![stmt], tail: Some(Box::new(head_a)) }), ta.clone());
                } else {
                    head_b = e(ExprKind::Block(Block { stmts: vec![stmt], tail: Some(Box::new(head_b)) }), tb.clone());
                }
            }
        }
        let join_stmt = Stmt::new(StmtKind::ForJoin { pat, a: head_a, b: head_b, body });
        match &shadow {
            Some(t0) => {
                inner_stmts.push(join_stmt);
                inner_stmts.push(Stmt::new(StmtKind::Assign { var: "carry".into(), accs: vec![], op: None, value: e(ExprKind::Var("acc0".into()), t0.clone()), target_ty: t0.clone() }));
                self.scopes.pop();
                stmts.push(Stmt::new(StmtKind::Expr(e(ExprKind::Block(Block { stmts: inner_stmts, tail: None }), Ty::unit()))));
                accs.push(("carry".to_string(), t0.clone()));
            }
            None => stmts.push(join_stmt),
        }
        let items: Vec<Expr> = accs.iter().map(|(n, t)| e(ExprKind::Var(n.clone()), t.clone())).collect();
        let (tail, ret) = if items.len() == 1 {
            let t = items[0].ty.clone();
            (items.into_iter().next().unwrap(), t)
        } else {
            let tys: Vec<Ty> = items.iter().map(|i| i.ty.clone()).collect();
            (e(ExprKind::TupleLit(items), Ty::Tuple(tys.clone())), Ty::Tuple(tys))
        };
        self.scopes.pop();
        let main = FnDef {
            name: "main".into(),
            is_pub: true,
            params: {
                let mut ps = vec![Param { name: "a".into(), ty: ta, mutable: false }, Param { name: "b".into(), ty: tb, mutable: false }];
                if let Some(ty) = mut_param {
                    ps.push(Param { name: "accp".into(), ty, mutable: true });
                }
                ps
            },
            ret,
            body: Block { stmts, tail: Some(Box::new(tail)) },
        };
        Program { defs: self.defs, fns: vec![main] }
    }
}
