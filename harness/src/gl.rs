//! Thin, panic-safe access layer to the garble_lang public API.

use crate::util::catch;
use garble_lang::circuit::Circuit;
use garble_lang::circuit_type::CircuitType;
use garble_lang::{CircuitKind, CompileOptions, GarbleProgram};
use std::collections::HashMap;

#[derive(Debug, Clone)]
pub enum CompileOutcome {
    Ok(Box<GarbleProgram>),
    /// scan / parse / type / compiler error (kind, rendered message)
    Rejected(&'static str, String),
    /// Rust panic inside garble_lang
    Crashed(String),
}

pub fn error_kind(e: &garble_lang::Error) -> &'static str {
    use garble_lang::{CompileTimeError as C, Error as E};
    match e {
        E::FnNotFound(_) => "fn_not_found",
        E::CompileTimeError(C::ScanErrors(_)) => "scan",
        E::CompileTimeError(C::ParseError(_)) => "parse",
        E::CompileTimeError(C::TypeError(_)) => "type",
        E::CompileTimeError(C::CompilerError(_)) => "compiler",
        E::EvalError(_) => "eval",
        E::ConvertError(_) => "convert",
    }
}

pub fn compile(src: &str, dedup: bool, register: bool) -> CompileOutcome {
    compile_consts(src, dedup, register, HashMap::new())
}

pub fn compile_consts(
    src: &str,
    dedup: bool,
    register: bool,
    consts: garble_lang::GarbleConsts,
) -> CompileOutcome {
    let opts = CompileOptions {
        circuit_kind: if register { CircuitKind::Register } else { CircuitKind::Ssa },
        consts,
        optimize_duplicate_gates: dedup,
    };
    match catch(|| garble_lang::compile_with_options(src, opts)) {
        Ok(Ok(p)) => CompileOutcome::Ok(Box::new(p)),
        Ok(Err(e)) => {
            let kind = error_kind(&e);
            let msg = catch(|| e.prettify(src)).unwrap_or_else(|p| format!("<prettify panicked: {p}>"));
            CompileOutcome::Rejected(kind, msg)
        }
        Err(p) => CompileOutcome::Crashed(p),
    }
}

pub fn ssa(p: &GarbleProgram) -> &Circuit {
    match &p.circuit {
        CircuitType::Ssa(c) => c,
        CircuitType::Register(_) => panic!("harness: expected SSA circuit"),
    }
}

/// Number of output bits that make up the panic record.
pub const PANIC_BITS: usize = 161;

/// Decoded panic record of one lane.
#[derive(Debug, Clone, PartialEq, Eq)]
pub struct PanicRec {
    pub reason: u32,
    pub start: (u32, u32),
    pub end: (u32, u32),
}

fn word32(out: &[u64], from: usize, lane: usize) -> u32 {
    let mut v = 0u32;
    for k in 0..32 {
        v = (v << 1) | ((out[from + k] >> lane) & 1) as u32;
    }
    v
}

/// Decode the panic record of lane `lane` from output words; None if the flag is clear.
pub fn decode_panic(out: &[u64], lane: usize) -> Option<PanicRec> {
    if (out[0] >> lane) & 1 == 0 {
        return None;
    }
    Some(PanicRec {
        reason: word32(out, 1, lane),
        start: (word32(out, 33, lane), word32(out, 65, lane)),
        end: (word32(out, 97, lane), word32(out, 129, lane)),
    })
}

pub fn reason_name(r: u32) -> &'static str {
    match r {
        1 => "Overflow",
        2 => "DivByZero",
        3 => "OutOfBounds",
        _ => "Invalid",
    }
}
