//! Shared run infrastructure: context, evidence, violation / known-finding reporting, panic
//! capture, worker threads.

use serde_json::{json, Map, Value};
use std::cell::RefCell;
use std::collections::BTreeMap;
use std::path::PathBuf;
use std::sync::atomic::{AtomicBool, AtomicU64, Ordering};
use std::sync::Mutex;
use std::time::{Duration, Instant};

/// Directory that holds known_findings.json and receives evidence/, replays/ and .work/
/// (default /verif; the env override lets a background snapshot run write into its own copy).
pub fn verif_dir() -> PathBuf {
    PathBuf::from(std::env::var("VERIF_DIR").unwrap_or_else(|_| "/verif".to_string()))
}
pub const WORKERS: usize = 16;

#[derive(Clone, Copy, PartialEq, Eq, Debug)]
pub enum Tier {
    Quick,
    Thorough,
}

impl Tier {
    pub fn name(self) -> &'static str {
        match self {
            Tier::Quick => "quick",
            Tier::Thorough => "thorough",
        }
    }
    pub fn pick<T>(self, quick: T, thorough: T) -> T {
        match self {
            Tier::Quick => quick,
            Tier::Thorough => thorough,
        }
    }
}

/// Verdict of a run.
#[derive(Clone, Debug, PartialEq, Eq)]
pub enum Verdict {
    Held,
    Violated,
    Inconclusive(String),
}

pub struct Ctx {
    pub id: String,
    pub tier: Tier,
    pub seed: u64,
    pub start: Instant,
    /// soft wall-clock budget for workloads (seconds)
    pub budget_s: f64,
    violations: std::sync::Arc<Mutex<Vec<Value>>>,
    pub violation_count: std::sync::Arc<AtomicU64>,
    finished: std::sync::Arc<AtomicBool>,
    known_seen: Mutex<BTreeMap<String, u64>>,
    inconclusive: Mutex<Vec<String>>,
    pub stop: AtomicBool,
    pub known: KnownFindings,
}

impl Ctx {
    pub fn new(id: &str, tier: Tier, seed: u64, budget_quick_s: f64, budget_thorough_s: f64) -> Self {
        let scale: f64 = std::env::var("VERIF_BUDGET_SCALE")
            .ok()
            .and_then(|s| s.parse().ok())
            .unwrap_or(1.0);
        // stale replay files of an earlier run with the same id / tier / seed would be misleading
        if let Ok(rd) = std::fs::read_dir(verif_dir().join("replays").join(id)) {
            let prefix = format!("{}-{}-", tier.name(), seed);
            for e in rd.flatten() {
                if e.file_name().to_string_lossy().starts_with(&prefix) {
                    let _ = std::fs::remove_file(e.path());
                }
            }
        }
        let budget_s = tier.pick(budget_quick_s, budget_thorough_s) * scale;
        let violations = std::sync::Arc::new(Mutex::new(vec![]));
        let violation_count = std::sync::Arc::new(AtomicU64::new(0));
        let finished = std::sync::Arc::new(AtomicBool::new(false));
        *CURRENT.lock().unwrap() = Some((id.to_string(), tier, seed, violations.clone(), violation_count.clone()));
        {
            // Run watchdog (3x the budget + 60 s). The code under test cannot be interrupted inside a
            // worker thread, so a run whose threads are stuck in it (e.g. a compilation that blows up
            // on a changed tree) is ended here. Violations that were already observed are reported:
            // they are facts about executions that did finish. Without any, the run is inconclusive.
            let (violations, violation_count, finished) = (violations.clone(), violation_count.clone(), finished.clone());
            let (id, tier, seed) = (id.to_string(), tier, seed);
            let limit = budget_s * 3.0 + 60.0;
            std::thread::spawn(move || {
                std::thread::sleep(Duration::from_secs_f64(limit));
                if finished.load(Ordering::SeqCst) {
                    return;
                }
                let nviol = violation_count.load(Ordering::SeqCst);
                println!("INCONCLUSIVE property={id} run watchdog fired after {limit:.0} s: worker threads are still inside the code under test (coverage counters of this run are lost)");
                if nviol > 0 {
                    let paths = write_replays(&id, tier, seed, &violations.lock().unwrap());
                    for (p, what) in &paths {
                        println!("VIOLATION property={} replay={}   # {}", id, p.display(), what);
                    }
                    println!("RESULT property={} tier={} seed={} verdict=violated violations={} wall_s={:.1} (stopped by the run watchdog)", id, tier.name(), seed, nviol, limit);
                    std::process::exit(1);
                }
                println!("RESULT property={} tier={} seed={} verdict=inconclusive wall_s={:.1}", id, tier.name(), seed, limit);
                std::process::exit(2);
            });
        }
        Ctx {
            id: id.to_string(),
            tier,
            seed,
            start: Instant::now(),
            budget_s,
            violations,
            violation_count,
            finished,
            known_seen: Mutex::new(BTreeMap::new()),
            inconclusive: Mutex::new(vec![]),
            stop: AtomicBool::new(false),
            known: KnownFindings::load(id),
        }
    }

    pub fn elapsed(&self) -> f64 {
        self.start.elapsed().as_secs_f64()
    }

    /// True when the soft budget of the whole run is used up.
    pub fn out_of_time(&self) -> bool {
        self.elapsed() > self.budget_s || self.stop.load(Ordering::Relaxed)
    }

    /// True when `frac` of the budget is used up (for phase splitting).
    pub fn past(&self, frac: f64) -> bool {
        self.elapsed() > self.budget_s * frac || self.stop.load(Ordering::Relaxed)
    }

    /// Record a violation with its replay payload. Keeps at most 25 payloads, counts all.
    pub fn violation(&self, what: &str, replay: Value) {
        let n = self.violation_count.fetch_add(1, Ordering::SeqCst);
        if n < 25 {
            let mut v = self.violations.lock().unwrap();
            v.push(json!({"what": what, "replay": replay}));
        }
        if n >= 200 {
            // enough; stop the workload early
            self.stop.store(true, Ordering::Relaxed);
        }
    }

    pub fn known_finding(&self, kf_id: &str) {
        let mut k = self.known_seen.lock().unwrap();
        *k.entry(kf_id.to_string()).or_insert(0) += 1;
    }

    pub fn inconclusive(&self, why: &str) {
        let mut v = self.inconclusive.lock().unwrap();
        if v.len() < 50 {
            v.push(why.to_string());
        }
    }

    /// Finish the run: write evidence + replay files, print lines, return the exit code.
    pub fn finish(&self, mut coverage: Map<String, Value>, assumptions: Vec<String>, min_nontrivial: u64) -> i32 {
        let wall = self.elapsed();
        let nviol = self.violation_count.load(Ordering::SeqCst);
        let violations = self.violations.lock().unwrap();
        let known_seen = self.known_seen.lock().unwrap();
        let mut inconclusive = self.inconclusive.lock().unwrap().clone();

        let distinct = coverage
            .get("distinct_nontrivial")
            .and_then(|v| v.as_u64())
            .unwrap_or(0);
        if distinct < min_nontrivial.max(2) {
            inconclusive.push(format!(
                "only {distinct} distinct non-trivial cases observed (minimum {min_nontrivial})"
            ));
        }
        if coverage
            .get("samples")
            .and_then(|s| s.as_array())
            .map(|a| a.is_empty())
            .unwrap_or(true)
        {
            inconclusive.push("no samples recorded".to_string());
        }

        // a run that was stopped early by violations may not have retained a sample yet: the
        // violation witnesses are what it observed
        if nviol > 0 && coverage.get("samples").and_then(|s| s.as_array()).map(|a| a.is_empty()).unwrap_or(true) {
            coverage.insert("samples".into(), json!(violations.iter().take(3).map(|v| json!({"violation_witness": v})).collect::<Vec<_>>()));
        }

        // replay files
        self.finished.store(true, Ordering::SeqCst);
        let replay_paths = if nviol > 0 { write_replays(&self.id, self.tier, self.seed, &violations) } else { vec![] };

        coverage.insert(
            "known_findings_seen".into(),
            json!(known_seen.iter().map(|(k, v)| (k.clone(), json!(v))).collect::<Map<String, Value>>()),
        );
        coverage.insert("inconclusive".into(), json!(inconclusive));
        coverage.insert("violations_found".into(), json!(nviol));
        let ev = json!({
            "property_id": self.id,
            "tier": self.tier.name(),
            "seed": self.seed,
            "level": "exploration",
            "coverage": Value::Object(coverage),
            "assumptions": assumptions,
            "wall_s": (wall * 1000.0).round() / 1000.0,
            "violations": nviol,
        });
        let evdir = verif_dir().join("evidence");
        let _ = std::fs::create_dir_all(&evdir);
        let evpath = evdir.join(format!("{}.json", self.id));
        if let Err(e) = std::fs::write(&evpath, serde_json::to_string_pretty(&ev).unwrap()) {
            eprintln!("cannot write evidence {evpath:?}: {e}");
            return 2;
        }

        for (k, n) in known_seen.iter() {
            let what = self.known.describe(k);
            println!("KNOWN-FINDING: property={} {} [{}; seen {}x]", self.id, what, k, n);
        }
        if nviol > 0 {
            for (p, what) in &replay_paths {
                println!("VIOLATION property={} replay={}   # {}", self.id, p.display(), what);
            }
            println!(
                "RESULT property={} tier={} seed={} verdict=violated violations={} wall_s={:.1}",
                self.id,
                self.tier.name(),
                self.seed,
                nviol,
                wall
            );
            return 1;
        }
        if !inconclusive.is_empty() {
            for why in inconclusive.iter() {
                println!("INCONCLUSIVE property={} {}", self.id, why);
            }
            println!(
                "RESULT property={} tier={} seed={} verdict=inconclusive wall_s={:.1}",
                self.id,
                self.tier.name(),
                self.seed,
                wall
            );
            return 2;
        }
        println!(
            "RESULT property={} tier={} seed={} verdict=held evaluations={} distinct_nontrivial={} wall_s={:.1}",
            self.id,
            self.tier.name(),
            self.seed,
            ev["coverage"]["evaluations"],
            ev["coverage"]["distinct_nontrivial"],
            wall
        );
        0
    }
}

type Current = (String, Tier, u64, std::sync::Arc<Mutex<Vec<Value>>>, std::sync::Arc<AtomicU64>);
static CURRENT: Mutex<Option<Current>> = Mutex::new(None);

/// Ends the process when the run cannot be completed (a worker thread died outside of a guarded
/// call, which on a changed tree can be the code under test panicking where the harness did not
/// expect it): violations observed so far are reported (exit 1), otherwise the run is inconclusive.
pub fn emergency_exit(reason: &str) -> ! {
    let cur = CURRENT.lock().ok().and_then(|c| c.clone());
    match cur {
        Some((id, tier, seed, violations, count)) => {
            println!("INCONCLUSIVE property={id} {reason} (coverage counters of this run are lost)");
            let nviol = count.load(Ordering::SeqCst);
            if nviol > 0 {
                let paths = write_replays(&id, tier, seed, &violations.lock().unwrap());
                for (p, what) in &paths {
                    println!("VIOLATION property={} replay={}   # {}", id, p.display(), what);
                }
                println!("RESULT property={} tier={} seed={} verdict=violated violations={} (run ended early)", id, tier.name(), seed, nviol);
                std::process::exit(1);
            }
            println!("RESULT property={} tier={} seed={} verdict=inconclusive", id, tier.name(), seed);
        }
        None => println!("INCONCLUSIVE {reason}"),
    }
    std::process::exit(2);
}

fn write_replays(id: &str, tier: Tier, seed: u64, violations: &[Value]) -> Vec<(PathBuf, String)> {
    let mut replay_paths = vec![];
    let dir = verif_dir().join("replays").join(id);
    let _ = std::fs::create_dir_all(&dir);
    for (i, v) in violations.iter().enumerate() {
        let path = dir.join(format!("{}-{}-{}.json", tier.name(), seed, i));
        let payload = json!({
            "property": id,
            "tier": tier.name(),
            "seed": seed,
            "what": v["what"],
            "case": v["replay"],
        });
        let _ = std::fs::write(&path, serde_json::to_string_pretty(&payload).unwrap());
        replay_paths.push((path, v["what"].as_str().unwrap_or("").to_string()));
    }
    replay_paths
}

// ---------------------------------------------------------------------------------------------
// known findings

#[derive(Clone, Debug, Default)]
pub struct KnownFindings {
    /// entries for this property with status "known"
    pub entries: Vec<Value>,
}

impl KnownFindings {
    pub fn load(prop: &str) -> Self {
        let path = verif_dir().join("known_findings.json");
        let Ok(text) = std::fs::read_to_string(&path) else {
            return KnownFindings::default();
        };
        let Ok(v) = serde_json::from_str::<Value>(&text) else {
            eprintln!("known_findings.json is not valid JSON; ignoring");
            return KnownFindings::default();
        };
        let mut entries = vec![];
        if let Some(fs) = v.get("findings").and_then(|f| f.as_array()) {
            for f in fs {
                if f.get("property").and_then(|p| p.as_str()) == Some(prop)
                    && f.get("status").and_then(|p| p.as_str()) == Some("known")
                {
                    entries.push(f.clone());
                }
            }
        }
        KnownFindings { entries }
    }

    pub fn describe(&self, id: &str) -> String {
        for e in &self.entries {
            if e.get("id").and_then(|p| p.as_str()) == Some(id) {
                return e.get("what").and_then(|p| p.as_str()).unwrap_or("").to_string();
            }
        }
        String::new()
    }

    /// Entries whose key.kind equals `kind`.
    pub fn of_kind<'a>(&'a self, kind: &'a str) -> impl Iterator<Item = &'a Value> + 'a {
        self.entries
            .iter()
            .filter(move |e| e["key"]["kind"].as_str() == Some(kind))
    }

    /// Find a witness entry whose key.input equals `input` exactly (and key.kind == kind).
    pub fn witness(&self, kind: &str, input: &str) -> Option<String> {
        for e in self.of_kind(kind) {
            if e["key"]["input"].as_str() == Some(input) {
                return e["id"].as_str().map(|s| s.to_string());
            }
        }
        None
    }
}

// ---------------------------------------------------------------------------------------------
// panic capture

thread_local! {
    static LAST_PANIC: RefCell<Option<String>> = const { RefCell::new(None) };
    static QUIET: RefCell<bool> = const { RefCell::new(false) };
}

pub fn install_panic_hook() {
    let default = std::panic::take_hook();
    std::panic::set_hook(Box::new(move |info| {
        let quiet = QUIET.with(|q| *q.borrow());
        if quiet {
            let loc = info
                .location()
                .map(|l| format!("{}:{}", l.file(), l.line()))
                .unwrap_or_default();
            let msg = if let Some(s) = info.payload().downcast_ref::<&str>() {
                s.to_string()
            } else if let Some(s) = info.payload().downcast_ref::<String>() {
                s.clone()
            } else {
                "<non-string panic>".to_string()
            };
            LAST_PANIC.with(|p| *p.borrow_mut() = Some(format!("{msg} @ {loc}")));
        } else {
            default(info);
        }
    }));
}

/// Run `f`, converting a Rust panic inside it into `Err(message @ file:line)`.
pub fn catch<T>(f: impl FnOnce() -> T) -> Result<T, String> {
    QUIET.with(|q| *q.borrow_mut() = true);
    LAST_PANIC.with(|p| *p.borrow_mut() = None);
    let r = std::panic::catch_unwind(std::panic::AssertUnwindSafe(f));
    QUIET.with(|q| *q.borrow_mut() = false);
    match r {
        Ok(v) => Ok(v),
        Err(_) => Err(LAST_PANIC
            .with(|p| p.borrow_mut().take())
            .unwrap_or_else(|| "<panic>".to_string())),
    }
}

/// Strip the line number / variable parts of a panic message so that it can serve as a signature.
pub fn panic_signature(msg: &str) -> String {
    // keep "file" of location and the first 60 chars of the message with digits collapsed
    let (m, loc) = msg.rsplit_once(" @ ").unwrap_or((msg, ""));
    let file = loc.rsplit_once(':').map(|x| x.0).unwrap_or(loc);
    let mut out = String::new();
    let mut last_digit = false;
    for ch in m.chars().take(80) {
        if ch.is_ascii_digit() {
            if !last_digit {
                out.push('#');
            }
            last_digit = true;
        } else {
            out.push(ch);
            last_digit = false;
        }
    }
    format!("{out} @ {file}")
}

// ---------------------------------------------------------------------------------------------
// workers

/// Run `f(worker_index)` on `n` threads with a large stack and collect the results.
pub fn par<T: Send>(n: usize, f: impl Fn(usize) -> T + Sync) -> Vec<T> {
    std::thread::scope(|s| {
        let mut hs = vec![];
        for w in 0..n {
            let f = &f;
            hs.push(
                std::thread::Builder::new()
                    .stack_size(256 << 20)
                    .spawn_scoped(s, move || f(w))
                    .unwrap(),
            );
        }
        hs.into_iter()
            .map(|h| match h.join() {
                Ok(v) => v,
                Err(_) => emergency_exit("a harness worker thread panicked outside of a guarded call"),
            })
            .collect()
    })
}

/// Simple additive counter map used for evidence histograms.
#[derive(Default, Clone, Debug)]
pub struct Counts(pub BTreeMap<String, u64>);

impl Counts {
    pub fn add(&mut self, k: &str, n: u64) {
        *self.0.entry(k.to_string()).or_insert(0) += n;
    }
    pub fn inc(&mut self, k: &str) {
        self.add(k, 1);
    }
    pub fn merge(&mut self, o: &Counts) {
        for (k, v) in &o.0 {
            *self.0.entry(k.clone()).or_insert(0) += v;
        }
    }
    pub fn get(&self, k: &str) -> u64 {
        self.0.get(k).copied().unwrap_or(0)
    }
    pub fn to_json(&self) -> Value {
        Value::Object(self.0.iter().map(|(k, v)| (k.clone(), json!(v))).collect())
    }
}

pub fn fnv(s: &[u8]) -> u64 {
    let mut h: u64 = 0xcbf29ce484222325;
    for b in s {
        h ^= *b as u64;
        h = h.wrapping_mul(0x100000001b3);
    }
    h
}

pub fn sleep_ms(ms: u64) {
    std::thread::sleep(Duration::from_millis(ms));
}
