//! C13 — join / join_iter compute exactly the sorted-merge join and hide match positions.

use crate::bits;
use crate::gl::{self, CompileOutcome};
use crate::ints;
use crate::model::exec::{self, CompileResult, ExecStats};
use crate::model::gen::{Gen, GenCfg, Profile};
use crate::model::print::Layout;
use crate::model::ty::{self, Defs, Ty, Val};
use crate::rng::Rng;
use crate::util::{catch, par, Counts, Ctx, Tier, WORKERS};
use garble_lang::verif_hooks::Builder;
use serde_json::{json, Map, Value};
use std::collections::HashSet;

// ---------------------------------------------------------------------------------------------
// sorting networks on complete 0/1 truth tables (zero-one principle)

/// Build sorter / merger over `len` one-bit keys with constant tag bits, evaluate on all 2^len
/// assignments. Returns (assignments checked, error).
fn check_network(len: usize, merger: Option<bool>, cache: bool) -> Result<u64, String> {
    let tag_bits = 5usize;
    let mut b = Builder::new(vec![len], cache);
    let mut elems: Vec<Vec<usize>> = (0..len)
        .map(|i| {
            let mut v = vec![2 + i];
            for t in 0..tag_bits {
                v.push((i >> (tag_bits - 1 - t)) & 1);
            }
            v
        })
        .collect();
    let r = catch(|| {
        match merger {
            Some(asc) => b.push_bitonic_merger(1, asc, &mut elems),
            None => b.push_bitonic_sorter(1, &mut elems),
        }
        let outs: Vec<usize> = elems.iter().flatten().copied().collect();
        b.build(outs)
    });
    let circ = r.map_err(|p| format!("builder panicked: {p}"))?;
    let mut checked = 0u64;
    for batch in 0..bits::exhaustive_batches(len) {
        let inputs = bits::exhaustive_batch(len, batch);
        let out = bits::eval_ssa(&circ, &inputs).map_err(|e| format!("network circuit: {e}"))?;
        let lanes = if len < 6 { 1usize << len } else { 64 };
        for l in 0..lanes {
            let keys_in: Vec<bool> = (0..len).map(|k| (inputs[k] >> l) & 1 == 1).collect();
            if let Some(_asc) = merger {
                // only bitonic inputs are in the merger's contract: first ascending then descending
                // or the other way round (at most two changes of direction, cyclically)
                let changes = (0..len).filter(|i| keys_in[*i] != keys_in[(*i + 1) % len]).count();
                if changes > 2 {
                    continue;
                }
            }
            checked += 1;
            let mut seen_tags = vec![false; len];
            let mut prev: Option<bool> = None;
            for e in 0..len {
                let base = gl::PANIC_BITS + e * (1 + tag_bits);
                let key = (out[base] >> l) & 1 == 1;
                let mut tag = 0usize;
                for t in 0..tag_bits {
                    tag = (tag << 1) | ((out[base + 1 + t] >> l) & 1) as usize;
                }
                if tag >= len || seen_tags[tag] {
                    return Err(format!("input {keys_in:?}: output element {e} carries tag {tag} (lost or duplicated element)"));
                }
                seen_tags[tag] = true;
                if keys_in[tag] != key {
                    return Err(format!("input {keys_in:?}: element with tag {tag} changed its key"));
                }
                let descending = merger == Some(false);
                if let Some(p) = prev {
                    let ok = if descending { p >= key } else { p <= key };
                    if !ok {
                        return Err(format!("input {keys_in:?}: output keys are not sorted at position {e}"));
                    }
                }
                prev = Some(key);
            }
        }
    }
    Ok(checked)
}

// ---------------------------------------------------------------------------------------------
// inputs

pub fn key_val(kt: &Ty, k: u64) -> Val {
    match kt {
        Ty::Int(_) => Val::Int(k as i128),
        Ty::Tuple(ts) if ts.len() == 2 && ts[1] == Ty::Bool => Val::Tuple(vec![Val::Int((k / 2) as i128), Val::Bool(k % 2 == 1)]),
        Ty::Tuple(ts) if ts.len() == 2 => Val::Tuple(vec![Val::Int((k / 3) as i128), Val::Int((k % 3) as i128)]),
        // byte strings: the number in base 3 (most significant digit first, the first byte takes the rest)
        Ty::Array(_, len) if *len > 0 => {
            let mut digits = vec![];
            let mut r = k;
            for _ in 1..*len {
                digits.push(Val::Int((r % 3) as i128));
                r /= 3;
            }
            digits.push(Val::Int(r as i128));
            digits.reverse();
            Val::Array(digits)
        }
        _ => panic!("harness: unsupported key type"),
    }
}

/// Key types of joins: unsigned numbers and, with widths that are not powers of two, pairs and byte
/// strings (keys are compared as bit strings over their whole width).
pub fn join_key_type(rng: &mut Rng) -> Ty {
    match rng.below(10) {
        0 => Ty::Int(ints::U16),
        1 => Ty::Int(ints::U32),
        2 => Ty::Int(ints::U64),
        3 => Ty::Tuple(vec![Ty::Int(ints::U8), Ty::Int(ints::U8)]),
        4 => Ty::Tuple(vec![Ty::Int(ints::U16), Ty::Int(ints::U8)]),
        5 => Ty::Tuple(vec![Ty::Int(ints::U8), Ty::Bool]),
        6 => Ty::Array(Box::new(Ty::Int(ints::U8)), 3),
        7 => Ty::Array(Box::new(Ty::Int(ints::U8)), 5),
        _ => Ty::Int(ints::U8),
    }
}

pub fn elem_with_key(rng: &mut Rng, et: &Ty, k: u64, d: &Defs) -> Val {
    match et {
        Ty::Tuple(ts) => {
            let mut fs = vec![key_val(&ts[0], k)];
            for t in &ts[1..] {
                fs.push(ty::gen_val(rng, t, d));
            }
            Val::Tuple(fs)
        }
        other => key_val(other, k),
    }
}

pub fn sorted_keys(rng: &mut Rng, n: usize, universe: u64, strict: bool) -> Vec<u64> {
    let mut ks: Vec<u64> = vec![];
    if strict {
        let mut set = std::collections::BTreeSet::new();
        while set.len() < n {
            set.insert(rng.below(universe));
        }
        ks.extend(set);
    } else {
        for _ in 0..n {
            ks.push(rng.below(universe));
        }
        ks.sort();
    }
    ks
}

/// Mirrors sorted keys to the top of the key type (k -> max - k), keeping them ascending: the largest
/// key of the type (all ones) then plays the role that key 0 plays otherwise.
fn mirror_to_top(ks: &mut Vec<u64>, max: u64) {
    for k in ks.iter_mut() {
        *k = max - *k;
    }
    ks.reverse();
}

/// all k-subsets of 0..u in ascending order
fn subsets(u: usize, k: usize) -> Vec<Vec<u64>> {
    let mut out = vec![];
    let mut cur = vec![];
    fn rec(u: usize, k: usize, start: usize, cur: &mut Vec<u64>, out: &mut Vec<Vec<u64>>) {
        if cur.len() == k {
            out.push(cur.clone());
            return;
        }
        for i in start..u {
            cur.push(i as u64);
            rec(u, k, i + 1, cur, out);
            cur.pop();
        }
    }
    rec(u, k, 0, &mut cur, &mut out);
    out
}

pub fn key_universe_max(kt: &Ty) -> u64 {
    match kt {
        Ty::Int(t) => (t.max_val().min(u64::MAX as i128)) as u64,
        Ty::Tuple(ts) if ts.len() == 2 && ts[1] == Ty::Bool => 255 * 2,
        Ty::Array(_, len) if *len > 0 => 255 * 3u64.pow(*len as u32 - 1),
        _ => 255 * 3,
    }
}

// ---------------------------------------------------------------------------------------------
// join built-in

struct JoinCase {
    src: String,
    ea: Ty,
    eb: Ty,
    n: usize,
    m: usize,
    assoc: bool,
}

fn prim_name(t: &Ty) -> String {
    t.show(&Defs::default())
}

fn gen_join_builtin(rng: &mut Rng, max: usize) -> JoinCase {
    // (an empty side in 1 of 8 cases each; when both are empty main gets a third parameter, it needs input bits)
    let n = if rng.chance(1, 8) { 0 } else { 1 + rng.usize_below(max) };
    let m = if rng.chance(1, 8) { 0 } else { 1 + rng.usize_below(max) };
    let pad = if n + m == 0 { ", z: bool" } else { "" };
    let key = join_key_type(rng);
    // (rows that are tuples always are (key, data ..): a key that is a pair needs associated data)
    let assoc = matches!(key, Ty::Tuple(_)) || rng.bool();
    let prims = [Ty::Bool, Ty::Int(ints::U8), Ty::Int(ints::I8), Ty::Int(ints::U16), Ty::Int(ints::I32), Ty::Int(ints::U64)];
    // (in 1 of 6 cases the associated data of both sides is zero-sized: the rows are tuples, but no wider than their key)
    let zero_sized_payloads = rng.chance(1, 6);
    let (ea, eb) = if assoc {
        let mut side = |rng: &mut Rng| {
            let k = 1 + rng.usize_below(2); // no 1-tuples (not expressible as literals)
            let mut f = vec![key.clone()];
            for _ in 0..k {
                f.push(if zero_sized_payloads { Ty::Array(Box::new(rng.pick(&prims).clone()), 0) } else { rng.pick(&prims).clone() });
            }
            Ty::Tuple(f)
        };
        (side(rng), side(rng))
    } else {
        (key.clone(), key.clone())
    };
    let ret_elem = if assoc { format!("(bool, {}, {})", prim_name(&ea), prim_name(&eb)) } else { format!("(bool, {})", prim_name(&ea)) };
    let src = format!(
        "pub fn main(a: [{}; {n}], b: [{}; {m}]{pad}) -> [{ret_elem}; const {{ {n}usize + {m}usize - 1usize }}] {{\n    join(a, b)\n}}\n",
        prim_name(&ea),
        prim_name(&eb)
    );
    JoinCase { src, ea, eb, n, m, assoc }
}

fn key_of(v: &Val, assoc: bool) -> Val {
    if assoc {
        v.elems()[0].clone()
    } else {
        v.clone()
    }
}

/// Judge one evaluation of `join(a, b)`.
fn judge_join(case: &JoinCase, a: &[Val], b: &[Val], out: &Val) -> Result<(), String> {
    let Val::Array(entries) = out else { return Err("result is not an array".into()) };
    if entries.len() != (case.n + case.m).saturating_sub(1) {
        return Err(format!("result has {} entries, expected {}", entries.len(), (case.n + case.m).saturating_sub(1)));
    }
    // expected matches: every common key once
    let mut expected: Vec<Val> = vec![];
    let mut seen: Vec<Val> = vec![];
    for x in a {
        let k = key_of(x, case.assoc);
        if seen.contains(&k) {
            continue;
        }
        if let Some(y) = b.iter().find(|y| key_of(y, case.assoc) == k) {
            seen.push(k);
            expected.push(if case.assoc { Val::Tuple(vec![Val::Bool(true), x.clone(), y.clone()]) } else { Val::Tuple(vec![Val::Bool(true), x.clone()]) });
        }
    }
    let zero = {
        let za = crate::model::interp::zero_of(&case.ea);
        let zb = crate::model::interp::zero_of(&case.eb);
        if case.assoc {
            Val::Tuple(vec![Val::Bool(false), za, zb])
        } else {
            Val::Tuple(vec![Val::Bool(false), za])
        }
    };
    let mut flagged: Vec<Val> = vec![];
    let mut flags: Vec<bool> = vec![];
    for (i, e) in entries.iter().enumerate() {
        let f = e.elems()[0].as_bool();
        flags.push(f);
        if f {
            flagged.push(e.clone());
        } else if *e != zero {
            return Err(format!("unflagged entry {i} is not all-zero"));
        }
    }
    // flags sorted: all flagged entries at one end
    let changes = flags.windows(2).filter(|w| w[0] != w[1]).count();
    if changes > 1 {
        return Err(format!("flags are not sorted: {flags:?}"));
    }
    // multiset equality
    let mut rest = expected.clone();
    for f in &flagged {
        match rest.iter().position(|e| e == f) {
            Some(p) => {
                rest.remove(p);
            }
            None => return Err("a flagged entry is not a matching element (or is duplicated)".into()),
        }
    }
    if !rest.is_empty() {
        return Err(format!("{} matching element(s) missing from the result", rest.len()));
    }
    Ok(())
}

/// One round of the `join` built-in with its own oracle: a generated join program, compiled with and
/// without de-duplication and converted to the register form, run on all 0/1-keyed sorted inputs
/// (plain joins of small sizes) and on random sorted inputs (also used by C01: the value of a program
/// that returns `join(a, b)`).
pub fn join_builtin_round(ctx: &Ctx, rng: &mut Rng, c: &mut Counts, distinct: &mut HashSet<u64>, samples: &mut Vec<Value>, it: u64, max_nm: usize) {
        // ---- join built-in with its own oracle
        let case = gen_join_builtin(rng, max_nm);
        let (on, off) = match (gl::compile(&case.src, true, false), gl::compile(&case.src, false, false)) {
            (CompileOutcome::Ok(a), CompileOutcome::Ok(b)) => (a, b),
            (CompileOutcome::Crashed(msg), _) | (_, CompileOutcome::Crashed(msg)) => {
                ctx.violation(&format!("compiler crashed on a join program: {msg}"), json!({"kind": "program", "program": case.src}));
                return;
            }
            (CompileOutcome::Rejected(k, msg), _) | (_, CompileOutcome::Rejected(k, msg)) => {
                c.inc("join programs rejected");
                if c.get("join programs rejected") <= 2 {
                    ctx.inconclusive(&format!("join program rejected ({k}): {}\n{}", case.src, msg.chars().take(400).collect::<String>()));
                }
                return;
            }
        };
        c.inc("join programs compiled");
        c.inc(&format!("join size pair {}x{}", case.n, case.m));
        distinct.insert(crate::util::fnv(case.src.as_bytes()));
        let d = Defs::default();
        let ta = Ty::Array(Box::new(case.ea.clone()), case.n);
        let tb = Ty::Array(Box::new(case.eb.clone()), case.m);
        let rel = if case.assoc { Ty::Tuple(vec![Ty::Bool, case.ea.clone(), case.eb.clone()]) } else { Ty::Tuple(vec![Ty::Bool, case.ea.clone()]) };
        let tret = Ty::Array(Box::new(rel), (case.n + case.m).saturating_sub(1));
        let kt = if case.assoc {
            let Ty::Tuple(f) = &case.ea else { unreachable!() };
            f[0].clone()
        } else {
            case.ea.clone()
        };
        let mut inputs: Vec<(Vec<Val>, Vec<Val>)> = vec![];
        // all 0/1-keyed sorted arrays (duplicates within a side: plain join only)
        if !case.assoc && case.n + case.m <= 12 {
            for za in 0..=case.n {
                for zb in 0..=case.m {
                    let a: Vec<Val> = (0..case.n).map(|i| key_val(&kt, (i >= za) as u64)).collect();
                    let b: Vec<Val> = (0..case.m).map(|i| key_val(&kt, (i >= zb) as u64)).collect();
                    inputs.push((a, b));
                }
            }
            c.add("join executions on 0/1 keys", ((case.n + 1) * (case.m + 1)) as u64);
        }
        for _ in 0..40 {
            let u = (case.n + case.m) as u64;
            let universe = match rng.below(3) {
                0 => (u + 1).min(key_universe_max(&kt)),
                1 => (2 * u + 3).min(key_universe_max(&kt)),
                _ => key_universe_max(&kt).min(1 << 24),
            }
            .max(case.n.max(case.m) as u64 + 1);
            let strict = case.assoc || rng.chance(2, 3);
            let mut ka = sorted_keys(rng, case.n, universe, strict);
            let mut kb = if rng.chance(1, 6) && case.n == case.m { ka.clone() } else { sorted_keys(rng, case.m, universe, strict) };
            if rng.chance(1, 3) {
                mirror_to_top(&mut ka, key_universe_max(&kt));
                mirror_to_top(&mut kb, key_universe_max(&kt));
            }
            inputs.push((
                ka.iter().map(|k| elem_with_key(rng, &case.ea, *k, &d)).collect(),
                kb.iter().map(|k| elem_with_key(rng, &case.eb, *k, &d)).collect(),
            ));
        }
        let mut reg = bits::RegStats::default();
        let r_on = match crate::util::catch(|| garble_lang::register_circuit::Circuit::from(gl::ssa(&on))) {
            Ok(r) => r,
            Err(p) => {
                ctx.violation(&format!("conversion of a compiled join program to a register circuit panicked: {p}"), json!({"kind": "program", "program": case.src}));
                return;
            }
        };
        'cases: for chunk in inputs.chunks(64) {
            let encs: Vec<Vec<bool>> = chunk
                .iter()
                .map(|(a, b)| {
                    let mut v = ty::encode_vec(&Val::Array(a.clone()), &ta, &d);
                    v.extend(ty::encode_vec(&Val::Array(b.clone()), &tb, &d));
                    if case.n + case.m == 0 {
                        v.push(false); // the parameter `z`
                    }
                    v
                })
                .collect();
            let words = bits::pack_lanes(&encs);
            let outs = [
                ("ssa/dedup-on", bits::eval_ssa(gl::ssa(&on), &words)),
                ("ssa/dedup-off", bits::eval_ssa(gl::ssa(&off), &words)),
                ("register/dedup-on", bits::eval_reg(&r_on, &words, &mut reg)),
            ];
            for (cfgname, out) in outs {
                let out = match out {
                    Ok(o) => o,
                    Err(e) => {
                        ctx.violation(&format!("join program ({cfgname}): {e}"), json!({"kind": "program", "program": case.src}));
                        break 'cases;
                    }
                };
                for (l, (a, b)) in chunk.iter().enumerate() {
                    c.inc("join executions judged");
                    let verdict = match exec::observe(&out, l, &tret, &d) {
                        exec::Observed::Panic { reason, .. } => Err(format!("join panicked ({})", gl::reason_name(reason))),
                        exec::Observed::Value(None, _) => Err("undecodable result".to_string()),
                        exec::Observed::Value(Some(v), _) => judge_join(&case, a, b, &v).map_err(|e| format!("{e}; result {}", ty::val_text(&v, &tret, &d))),
                    };
                    if let Err(e) = verdict {
                        ctx.violation(
                            &format!("join built-in ({cfgname}, {}x{}): {}", case.n, case.m, e.chars().take(160).collect::<String>()),
                            json!({"kind": "join", "program": case.src, "config": cfgname, "a": ty::val_text(&Val::Array(a.clone()), &ta, &d), "b": ty::val_text(&Val::Array(b.clone()), &tb, &d), "problem": e}),
                        );
                        break 'cases;
                    }
                }
            }
        }
        if samples.len() < 2 && it > 8 && case.n + case.m < 7 {
            samples.push(json!({"kind": "join", "program": case.src, "a": ty::val_text(&Val::Array(inputs[0].0.clone()), &ta, &d), "b": ty::val_text(&Val::Array(inputs[0].1.clone()), &tb, &d)}));
        }
}

pub fn run(ctx: &Ctx) -> i32 {
    let max_nm = ctx.tier.pick(6usize, 10usize);
    let mut counts = Counts::default();
    // 1. networks
    let lens: Vec<usize> = (1..=ctx.tier.pick(14usize, 16usize)).collect();
    let jobs: Vec<(usize, Option<bool>, bool)> = {
        let mut j = vec![];
        for &l in &lens {
            for cache in [true, false] {
                j.push((l, None, cache));
                if l.is_power_of_two() {
                    j.push((l, Some(true), cache));
                    j.push((l, Some(false), cache));
                }
            }
        }
        j.sort_by_key(|x| std::cmp::Reverse(x.0));
        j
    };
    let next = std::sync::atomic::AtomicUsize::new(0);
    let net_results = par(WORKERS, |_w| {
        let mut c = Counts::default();
        loop {
            let i = next.fetch_add(1, std::sync::atomic::Ordering::SeqCst);
            if i >= jobs.len() {
                break;
            }
            let (len, merger, cache) = jobs[i];
            let what = match merger {
                None => "bitonic_sorter",
                Some(true) => "bitonic_merger(ascending)",
                Some(false) => "bitonic_merger(descending)",
            };
            match check_network(len, merger, cache) {
                Ok(n) => {
                    c.add(&format!("{what}: 0/1 inputs checked"), n);
                    c.inc(&format!("{what}: lengths x cache settings completed"));
                }
                Err(e) => ctx.violation(&format!("push_{what} on {len} elements (cache_gates={cache}): {e}"), json!({"kind": "network", "network": what, "len": len, "cache_gates": cache, "problem": e})),
            }
        }
        c
    });
    for c in net_results {
        counts.merge(&c);
    }

    // 2. + 3. programs
    let results = par(WORKERS, |w| {
        let mut rng = Rng::derive(ctx.seed, 0x1300 + w as u64);
        let mut c = Counts::default();
        let mut st = ExecStats::default();
        let mut distinct: HashSet<u64> = HashSet::new();
        let mut samples: Vec<Value> = vec![];
        let mut it = 0u64;
        while !ctx.out_of_time() {
            it += 1;
            if it % 2 == 0 {
                // ---- for-join loop through the reference interpreter
                let case_seed = rng.next_u64();
                let mut crng = Rng::new(case_seed);
                // (an empty side in 1 of 8 cases each)
                let n = if crng.chance(1, 8) { 0 } else { 1 + crng.usize_below(max_nm) };
                let m = if crng.chance(1, 8) { 0 } else { 1 + crng.usize_below(max_nm) };
                let mut cfg = GenCfg::new(if crng.bool() { Profile::PanicHeavy } else { Profile::MutationHeavy });
                cfg.max_cost = 1500;
                let style = crng.next_u64();
                let prog = Gen::new(&mut crng, cfg).gen_join_program(n, m);
                let pr = exec::print(&prog, style, Layout::TokenPerLine);
                let compiled = match exec::compile_all(&pr.src) {
                    CompileResult::Ok(cc) => cc,
                    CompileResult::Rejected(k, msg) => {
                        c.inc("for-join programs rejected");
                        if c.get("for-join programs rejected") <= 2 {
                            ctx.inconclusive(&format!("generated for-join program rejected ({k}): {}\n{}", pr.src, msg.chars().take(400).collect::<String>()));
                        }
                        continue;
                    }
                    CompileResult::Crashed(msg) => {
                        ctx.violation(&format!("compiler crashed on a for-join program: {msg}"), json!({"kind": "program", "program": pr.src, "case_seed": case_seed}));
                        continue;
                    }
                    CompileResult::TooBig(_) => {
                        c.inc("skipped_too_big");
                        continue;
                    }
                };
                c.inc("for-join programs compiled");
                c.inc(&format!("for-join size pair {n}x{m}"));
                distinct.insert(crate::util::fnv(pr.src.as_bytes()));
                let (Ty::Array(ea, _), Ty::Array(eb, _)) = (&prog.main().params[0].ty, &prog.main().params[1].ty) else { unreachable!() };
                let Ty::Tuple(fa) = &**ea else { unreachable!() };
                let kt = fa[0].clone();
                // argument tuples: exhaustive order types for small sizes, else random
                let mut tuples: Vec<Vec<Val>> = vec![];
                let u = n + m;
                if u <= 7 {
                    let sa = subsets(u, n);
                    let sb = subsets(u, m);
                    for ka in &sa {
                        for kb in &sb {
                            tuples.push(vec![
                                Val::Array(ka.iter().map(|k| elem_with_key(&mut crng, ea, *k, &prog.defs)).collect()),
                                Val::Array(kb.iter().map(|k| elem_with_key(&mut crng, eb, *k, &prog.defs)).collect()),
                            ]);
                            if let Some(p) = prog.main().params.get(2) {
                                let v = crate::model::ty::gen_val(&mut crng, &p.ty, &prog.defs);
                                tuples.last_mut().unwrap().push(v);
                            }
                        }
                    }
                    c.add("for-join executions from exhaustive order types", tuples.len() as u64);
                    if tuples.len() > 640 {
                        crng.shuffle(&mut tuples[..]);
                        tuples.truncate(640);
                    }
                }
                for _ in 0..32 {
                    let universe = match crng.below(3) {
                        0 => (u as u64 + 1).min(key_universe_max(&kt)),
                        1 => (2 * u as u64 + 3).min(key_universe_max(&kt)),
                        _ => key_universe_max(&kt).min(1 << 20),
                    }
                    .max(n.max(m) as u64 + 1);
                    let mut ka = sorted_keys(&mut crng, n, universe, true);
                    let mut kb = if crng.chance(1, 6) && n == m { ka.clone() } else { sorted_keys(&mut crng, m, universe, true) };
                    if crng.chance(1, 3) {
                        mirror_to_top(&mut ka, key_universe_max(&kt));
                        mirror_to_top(&mut kb, key_universe_max(&kt));
                    }
                    tuples.push(vec![
                        Val::Array(ka.iter().map(|k| elem_with_key(&mut crng, ea, *k, &prog.defs)).collect()),
                        Val::Array(kb.iter().map(|k| elem_with_key(&mut crng, eb, *k, &prog.defs)).collect()),
                    ]);
                    if let Some(p) = prog.main().params.get(2) {
                        let v = crate::model::ty::gen_val(&mut crng, &p.ty, &prog.defs);
                        tuples.last_mut().unwrap().push(v);
                    }
                }
                let mut reported = false;
                for chunk in tuples.chunks(64) {
                    match exec::run_batch(&prog, &pr, &compiled, chunk, &mut st) {
                        Err(e) => {
                            ctx.violation(&format!("for-join program: {e}"), json!({"kind": "program", "program": pr.src, "case_seed": case_seed, "problem": e}));
                            reported = true;
                        }
                        Ok(mm) => {
                            if let Some(first) = mm.first() {
                                ctx.violation(
                                    &format!("for-join loop: {:?} in {} ({} disagreeing executions)", first.verdict, first.config, mm.len()),
                                    json!({"kind": "program-execution", "program": pr.src, "case_seed": case_seed, "n": n, "m": m,
                                           "mismatches": mm.iter().take(3).map(|x| json!({"config": x.config, "verdict": format!("{:?}", x.verdict), "args": x.args_text, "expected": x.expected, "observed": x.observed})).collect::<Vec<_>>()}),
                                );
                                reported = true;
                            }
                        }
                    }
                    if reported {
                        break;
                    }
                }
                if samples.is_empty() && pr.toks.len() < 150 && it > 6 {
                    samples.push(json!({"kind": "for-join", "program": crate::model::print::render(&pr.toks, Layout::Compact), "n": n, "m": m,
                        "first_args": tuples[0].iter().zip(&prog.main().params).map(|(a, p)| ty::val_text(a, &p.ty, &prog.defs)).collect::<Vec<_>>()}));
                }
            } else {
                join_builtin_round(ctx, &mut rng, &mut c, &mut distinct, &mut samples, it, max_nm);
            }
        }
        (c, st, distinct, samples)
    });
    let mut st = ExecStats::default();
    let mut distinct: HashSet<u64> = HashSet::new();
    let mut samples = vec![];
    for (c, s, d, sm) in results {
        counts.merge(&c);
        st.executions += s.executions;
        st.judged += s.judged;
        st.expected_ok += s.expected_ok;
        st.expected_panic += s.expected_panic;
        distinct.extend(d);
        if samples.len() < 4 {
            samples.extend(sm.into_iter().take(2));
        }
    }
    let mut cov = Map::new();
    cov.insert("evaluations".into(), json!(st.judged * 4 + counts.get("join executions judged")));
    cov.insert("distinct_nontrivial".into(), json!(distinct.len()));
    cov.insert("rule".into(), json!("a case is a generated for-join program or join program (distinct by source hash) run on sorted inputs (all order types of small key sets, all 0/1-keyed sorted arrays for the plain join, random keys incl. key 0 / identical / disjoint sets); for-join executions are judged against the reference interpreter (body once per equal-key pair in ascending key order, panics included), join results against a multiset oracle (length, flagged = matches, unflagged zero, flags sorted); sorting networks are checked on complete 0/1 truth tables"));
    cov.insert("for_join_executions_judged".into(), json!(st.judged));
    cov.insert("for_join_executions_expected_panic".into(), json!(st.expected_panic));
    cov.insert("details".into(), counts.to_json());
    cov.insert("exhaustive".into(), json!(false));
    cov.insert("samples".into(), json!(samples));
    let _ = Tier::Quick;
    ctx.finish(cov, vec!["inputs are sorted (strictly for for-join and for joins with associated data) as the contract demands".into()], 50)
}
