//! C16 — a circuit that passes validation can be evaluated safely.

use crate::bits::{self, RegStats};
use crate::circgen;
use crate::corpus;
use crate::gl::{self, CompileOutcome};
use crate::rng::Rng;
use crate::util::{catch, par, Counts, Ctx, WORKERS};
use garble_lang::circuit::Circuit;
use garble_lang::register_circuit as rc;
use serde_json::{json, Map, Value};

use super::c10::{circuit_json, reg_json};

fn random_inputs(rng: &mut Rng, shape: &[usize]) -> Vec<Vec<bool>> {
    shape.iter().map(|n| (0..*n).map(|_| rng.bool()).collect()).collect()
}

fn flat_words(parts: &[Vec<bool>]) -> Vec<u64> {
    parts.iter().flatten().map(|b| if *b { !0u64 } else { 0 }).collect()
}

/// Judge one SSA circuit value. Returns (accepted by validate?, violation description).
fn judge_ssa(c: &Circuit, rng: &mut Rng, counts: &mut Counts) -> (bool, Option<String>) {
    // circuits whose declared sizes cannot be materialised are out of scope for evaluation
    let total: Option<usize> = c.input_gates.iter().try_fold(0usize, |a, b| a.checked_add(*b));
    let v = match catch(|| c.validate()) {
        Err(p) => {
            counts.inc("ssa:validate-panicked");
            return (false, Some(format!("validate() panicked instead of returning a verdict: {p}")));
        }
        Ok(v) => v,
    };
    match v {
        Err(e) => {
            counts.inc(&format!("ssa:rejected:{}", format!("{e:?}").split('(').next().unwrap_or("")));
            (false, None)
        }
        Ok(()) => {
            counts.inc("ssa:accepted");
            let Some(total) = total else { return (true, None) };
            if total > 1 << 20 {
                return (true, None);
            }
            for _ in 0..3 {
                let inputs = random_inputs(rng, &c.input_gates);
                match catch(|| c.eval(&inputs)) {
                    Err(p) => return (true, Some(format!("validate() accepted, eval panicked: {p}"))),
                    Ok(out) => {
                        if out.len() != c.output_gates.len() {
                            return (true, Some(format!("eval returned {} bits for {} outputs", out.len(), c.output_gates.len())));
                        }
                        match bits::eval_ssa(c, &flat_words(&inputs)) {
                            Err(e) => return (true, Some(format!("validate() accepted, shadow interpreter: {e}"))),
                            Ok(mine) => {
                                if bits::lane(&mine, 0) != out {
                                    return (true, Some("eval result differs from the shadow interpreter".into()));
                                }
                            }
                        }
                    }
                }
            }
            (true, None)
        }
    }
}

fn judge_reg(c: &rc::Circuit, rng: &mut Rng, counts: &mut Counts) -> (bool, Option<String>) {
    let v = match catch(|| c.validate()) {
        Err(p) => {
            counts.inc("reg:validate-panicked");
            return (false, Some(format!("validate() panicked instead of returning a verdict: {p}")));
        }
        Ok(v) => v,
    };
    match v {
        Err(e) => {
            counts.inc(&format!("reg:rejected:{}", format!("{e:?}").split('(').next().unwrap_or("")));
            (false, None)
        }
        Ok(()) => {
            counts.inc("reg:accepted");
            for _ in 0..3 {
                let inputs = random_inputs(rng, &c.input_regs);
                match catch(|| c.eval(&inputs)) {
                    Err(p) => return (true, Some(format!("validate() accepted, eval panicked: {p}"))),
                    Ok(out) => {
                        if out.len() != c.output_regs.len() {
                            return (true, Some(format!("eval returned {} bits for {} outputs", out.len(), c.output_regs.len())));
                        }
                        let mut st = RegStats::default();
                        match bits::eval_reg(c, &flat_words(&inputs), &mut st) {
                            Err(e) => return (true, Some(format!("validate() accepted, shadow interpreter: {e}"))),
                            Ok(mine) => {
                                if bits::lane(&mine, 0) != out {
                                    return (true, Some("eval result differs from the shadow interpreter".into()));
                                }
                            }
                        }
                    }
                }
            }
            (true, None)
        }
    }
}

pub fn run(ctx: &Ctx) -> i32 {
    let mut programs: Vec<(String, String)> = corpus::load();
    programs.extend(super::c04_op_programs().into_iter().enumerate().map(|(i, p)| (format!("op-program-{i}"), p)));
    // signatures with zero-sized parameters in every position (single, first, middle, last, inside a
    // single array parameter): the compiler either refuses them or produces a circuit that validates
    {
        let zst = ["[bool; 0]", "[u8; 0]", "Z", "[Z; 2]", "[[bool; 0]; 2]", "([u8; 0], Z)", "[(Z, [u16; 0]); 3]"];
        let sized = ["u8", "bool", "[u8; 2]", "(u8, Z)"];
        let mut k = 0;
        let mut push = |params: Vec<&str>| {
            k += 1;
            let ps: Vec<String> = params.iter().enumerate().map(|(i, t)| format!("p{i}: {t}")).collect();
            programs.push((format!("crafted-zero-sized-parameters-{k}"), format!("struct Z {{}}\npub fn main({}) -> bool {{ true }}\n", ps.join(", "))));
        };
        for z in zst {
            push(vec![z]);
            push(vec![z, z]);
            for sz in sized {
                push(vec![z, sz]);
                push(vec![sz, z]);
                push(vec![sz, z, sz]);
                push(vec![z, sz, z]);
            }
        }
    }
    let results = par(WORKERS, |w| {
        let mut rng = Rng::derive(ctx.seed, 0x1600 + w as u64);
        let mut counts = Counts::default();
        let mut distinct = std::collections::HashSet::new();
        let mut samples: Vec<Value> = vec![];
        let mut valid_ssa: Vec<Circuit> = vec![];
        let mut valid_reg: Vec<rc::Circuit> = vec![];
        let mut n = 0u64;
        // products of the compiler and the converter must validate
        for (i, (origin, src)) in programs.iter().enumerate() {
            if i % WORKERS != w {
                continue;
            }
            if let CompileOutcome::Ok(p) = gl::compile(src, true, false) {
                let c = gl::ssa(&p);
                if c.gates.len() > 200_000 {
                    continue;
                }
                n += 1;
                counts.inc("compiler-product");
                match crate::util::catch(|| c.validate()) {
                    Ok(Ok(())) => {}
                    Ok(Err(e)) => {
                        ctx.violation(&format!("compiler output for {origin} fails validate(): {e:?}"), json!({"kind": "program", "program": src}));
                        continue;
                    }
                    Err(p) => {
                        ctx.violation(&format!("validate() panicked on the compiler output for {origin}: {p}"), json!({"kind": "program", "program": src}));
                        continue;
                    }
                }
                let r = match crate::util::catch(|| rc::Circuit::from(c)) {
                    Ok(r) => r,
                    Err(p) => {
                        ctx.violation(&format!("conversion of the valid compiler output for {origin} to a register circuit panicked: {p}"), json!({"kind": "program", "program": src}));
                        continue;
                    }
                };
                match crate::util::catch(|| r.validate()) {
                    Ok(Ok(())) => {}
                    Ok(Err(e)) => {
                        ctx.violation(&format!("converter output for {origin} fails validate(): {e:?}"), json!({"kind": "program", "program": src}));
                        continue;
                    }
                    Err(p) => {
                        ctx.violation(&format!("validate() panicked on the converter output for {origin}: {p}"), json!({"kind": "program", "program": src}));
                        continue;
                    }
                }
                if c.gates.len() < 3000 {
                    valid_ssa.push(c.clone());
                    valid_reg.push(r);
                }
            }
        }
        for _ in 0..40 {
            let c = circgen::well_formed_ssa(&mut rng, 30);
            // (validation accepts every circuit produced by the SSA-to-register conversion; the
            // conversion of a valid SSA circuit does not panic either)
            match crate::util::catch(|| rc::Circuit::from(&c)) {
                Ok(r) => {
                    if let Err(e) = r.validate() {
                        ctx.violation(&format!("converter output for a well-formed SSA circuit fails validate(): {e:?}"), json!({"kind": "ssa", "circuit": format!("{c:?}").chars().take(2000).collect::<String>()}));
                        continue;
                    }
                    valid_reg.push(r);
                }
                Err(p) => {
                    ctx.violation(&format!("SSA-to-register conversion panicked on a valid SSA circuit: {p}"), json!({"kind": "ssa", "circuit": format!("{c:?}").chars().take(2000).collect::<String>()}));
                    continue;
                }
            }
            valid_ssa.push(c);
        }
        while !ctx.out_of_time() {
            for _ in 0..200 {
                n += 1;
                match rng.below(4) {
                    0 => {
                        let c = circgen::arbitrary_ssa(&mut rng);
                        distinct.insert(crate::util::fnv(format!("{c:?}").as_bytes()));
                        let (acc, v) = judge_ssa(&c, &mut rng, &mut counts);
                        if let Some(e) = v {
                            ctx.violation(&format!("SSA circuit value: {e}"), json!({"kind": "ssa", "circuit": circuit_json(&c), "problem": e}));
                        } else if acc && samples.len() < 1 && !c.gates.is_empty() {
                            samples.push(json!({"accepted_and_evaluated": circuit_json(&c)}));
                        }
                    }
                    1 => {
                        let c = circgen::arbitrary_reg(&mut rng);
                        distinct.insert(crate::util::fnv(format!("{c:?}").as_bytes()));
                        let (acc, v) = judge_reg(&c, &mut rng, &mut counts);
                        if let Some(e) = v {
                            ctx.violation(&format!("register circuit value: {e}"), json!({"kind": "reg", "circuit": reg_json(&c), "problem": e}));
                        } else if acc && samples.len() < 2 && c.insts.len() > 2 {
                            samples.push(json!({"accepted_and_evaluated": reg_json(&c)}));
                        }
                    }
                    2 => {
                        let base = rng.pick(&valid_ssa).clone();
                        let c = circgen::mutate_ssa(&mut rng, &base);
                        distinct.insert(crate::util::fnv(format!("{c:?}").as_bytes()));
                        counts.inc("ssa:mutant-of-valid");
                        let (_, v) = judge_ssa(&c, &mut rng, &mut counts);
                        if let Some(e) = v {
                            ctx.violation(&format!("mutated SSA circuit: {e}"), json!({"kind": "ssa", "circuit": if c.gates.len() < 200 { circuit_json(&c) } else { json!("large") }, "problem": e}));
                        }
                    }
                    _ => {
                        let base = rng.pick(&valid_reg).clone();
                        let c = circgen::mutate_reg(&mut rng, &base);
                        distinct.insert(crate::util::fnv(format!("{c:?}").as_bytes()));
                        counts.inc("reg:mutant-of-valid");
                        let (_, v) = judge_reg(&c, &mut rng, &mut counts);
                        if let Some(e) = v {
                            ctx.violation(&format!("mutated register circuit: {e}"), json!({"kind": "reg", "circuit": if c.insts.len() < 200 { reg_json(&c) } else { json!("large") }, "problem": e}));
                        }
                    }
                }
            }
        }
        (n, counts, distinct, samples)
    });
    let mut n = 0;
    let mut counts = Counts::default();
    let mut distinct = std::collections::HashSet::new();
    let mut samples = vec![];
    for (k, c, d, s) in results {
        n += k;
        counts.merge(&c);
        distinct.extend(d);
        samples.extend(s.into_iter().take(1));
    }
    samples.truncate(4);
    let mut cov = Map::new();
    cov.insert("evaluations".into(), json!(n));
    cov.insert("distinct_nontrivial".into(), json!(distinct.len()));
    cov.insert("rule".into(), json!("a case is a circuit value (arbitrary, or a single-field mutation of a valid one); distinct by structural hash; for every value that validate() accepts, garble's eval runs under catch_unwind on 3 random inputs of the declared shape and a definedness-tracking shadow interpreter replays it"));
    cov.insert("by_verdict".into(), counts.to_json());
    cov.insert("accepted_values_evaluated".into(), json!(counts.get("ssa:accepted") + counts.get("reg:accepted")));
    cov.insert("exhaustive".into(), json!(false));
    cov.insert("samples".into(), json!(samples));
    if counts.get("ssa:accepted") < 100 || counts.get("reg:accepted") < 100 {
        ctx.inconclusive("too few accepted circuit values (the antecedent was hardly ever true)");
    }
    ctx.finish(cov, vec!["inputs are of the declared shape (number of parties and bits per party)".into()], 1000)
}
