//! C07 — the front end is total: any input text gives Ok or a non-empty list of errors with
//! well-formed locations that can be rendered; never a panic, a crash or a hang.
//!
//! The target may hang, overflow its stack or exhaust memory, so it runs in isolated worker
//! subprocesses (`gverif worker fe`) that are fed inputs through a pipe by a parent-side manager
//! with a watchdog. The worker announces every stage it enters (one unbuffered byte), so a hang or
//! a crash is attributed to a stage from the partial answer line.

use crate::corpus;
use crate::model::exec;
use crate::model::gen::{GenCfg, Profile};
use crate::model::mutate::{self, AST_RULES};
use crate::model::print::{self, Layout};
use crate::rng::Rng;
use crate::util::{catch, fnv, panic_signature, par, Counts, Ctx, Tier, WORKERS};
use garble_lang::ast::{Type, Variant};
use garble_lang::token::{MetaInfo, SignedNumType, UnsignedNumType};
use garble_lang::{CompileTimeError, TypedProgram};
use serde_json::{json, Map, Value};
use std::collections::{BTreeMap, BTreeSet, HashMap, HashSet};
use std::io::{BufRead, Read, Write};
use std::path::PathBuf;
use std::process::{Child, ChildStdin, Command, Stdio};
use std::sync::mpsc::{self, RecvTimeoutError};
use std::sync::{Arc, Mutex};
use std::time::{Duration, Instant};

// =============================================================================================
// worker side (subprocess)

fn mark(c: u8) {
    let out = std::io::stdout();
    let mut o = out.lock();
    let _ = o.write_all(&[c]);
    let _ = o.flush();
}

fn one_line(s: &str) -> String {
    s.chars().map(|c| if c == '\n' || c == '\r' { ' ' } else { c }).take(300).collect()
}

/// Number of lines of `text` as an editor counts them: the number of '\n' plus one.
fn n_lines(text: &str) -> usize {
    text.bytes().filter(|b| *b == b'\n').count() + 1
}

fn metas_of(e: &CompileTimeError) -> Vec<Option<MetaInfo>> {
    match e {
        CompileTimeError::ScanErrors(es) => es.iter().map(|e| Some(e.1)).collect(),
        CompileTimeError::ParseError(es) => es.iter().map(|e| Some(e.1)).collect(),
        CompileTimeError::TypeError(es) => es.iter().map(|e| Some(*e.1)).collect(),
        CompileTimeError::CompilerError(es) => es
            .iter()
            .map(|e| match e {
                garble_lang::compile::CompilerError::MissingConstant(_, _, m) => Some(*m),
                _ => None,
            })
            .collect(),
    }
}

/// Judge an error value returned by a stage: non-empty, every location well-formed and on
/// existing lines (or just past the end), prettify does not fail. Returns the answer line.
fn judge_errors(stage: &str, src: &str, e: CompileTimeError) -> String {
    let metas = metas_of(&e);
    if metas.is_empty() {
        return format!("B {stage} empty-error-list");
    }
    let lines = n_lines(src);
    for m in metas.iter().flatten() {
        if m.start > m.end {
            return format!("B {stage} location-start-after-end {m:?}");
        }
        if m.start.0 > lines || m.end.0 > lines {
            return format!("B {stage} location-beyond-input {m:?} input-lines={lines}");
        }
    }
    let n = metas.len();
    let err = garble_lang::Error::CompileTimeError(e);
    match catch(|| err.prettify(src)) {
        Ok(s) if std::env::var("VERIF_FE_VERBOSE").is_ok() => {
            eprintln!("{s}");
            format!("E {stage} {n}")
        }
        Err(p) => format!("B {stage} prettify-panicked {}", one_line(&p)),
        Ok(s) if s.trim().is_empty() => format!("B {stage} prettify-empty"),
        Ok(_) => format!("E {stage} {n}"),
    }
}

thread_local! {
    /// micros spent in scan + parse + type check of the current input
    static FRONT_US: std::cell::Cell<u64> = const { std::cell::Cell::new(0) };
}

fn fe_program(src: &str, do_compile: bool) -> String {
    let t0 = Instant::now();
    let r = fe_program_inner(src, do_compile, t0);
    if FRONT_US.with(|f| f.get()) == 0 {
        FRONT_US.with(|f| f.set(t0.elapsed().as_micros() as u64));
    }
    r
}

fn fe_program_inner(src: &str, do_compile: bool, t0: Instant) -> String {
    mark(b's');
    let toks = match catch(|| garble_lang::scan::scan(src)) {
        Err(p) => return format!("P scan {}", one_line(&p)),
        Ok(Err(es)) => return judge_errors("scan", src, CompileTimeError::ScanErrors(es)),
        Ok(Ok(t)) => t,
    };
    mark(b'p');
    let ast = match catch(|| toks.parse()) {
        Err(p) => return format!("P parse {}", one_line(&p)),
        Ok(Err(es)) => return judge_errors("parse", src, CompileTimeError::ParseError(es)),
        Ok(Ok(t)) => t,
    };
    mark(b't');
    let typed = match catch(|| ast.type_check()) {
        Err(p) => return format!("P check {}", one_line(&p)),
        Ok(Err(es)) => return judge_errors("check", src, CompileTimeError::TypeError(es)),
        Ok(Ok(t)) => t,
    };
    FRONT_US.with(|f| f.set(t0.elapsed().as_micros().max(1) as u64));
    if !do_compile {
        return "O checked".to_string();
    }
    mark(b'c');
    let r = match catch(|| typed.compile("main").map(|(c, _)| c.gates.len())) {
        Err(p) => {
            // cause attribution for known finding KF-C05-1: does the type-checked program still
            // contain a number literal whose type was left unspecified (compiled as 32 wires)?
            // (in the Debug rendering only *types* print as `Unsigned(Unspecified)` / `Signed(Unspecified)`;
            // a literal node that got a concrete type prints as `NumUnsigned(1, Unspecified), .. ty: Unsigned(U8)`)
            let unspecified = catch(|| {
                let dbg = format!("{typed:?}");
                dbg.contains("Unsigned(Unspecified)") || dbg.contains("Signed(Unspecified)")
            })
            .unwrap_or(false);
            let empty_join = catch(|| has_join_of_two_empty_arrays(&typed)).unwrap_or(false);
            let stage = if unspecified {
                "compile[unspecified-literal-type-left-by-check]"
            } else if empty_join {
                "compile[join-call-on-two-empty-arrays]"
            } else {
                "compile"
            };
            return format!("P {stage} {}", one_line(&p));
        }
        Ok(Err(es)) => {
            let judged = judge_errors("compile", src, CompileTimeError::CompilerError(es));
            if judged.starts_with('E') {
                if let Some(r) = fe_compile_with_consts(&typed) {
                    if !r.starts_with('E') {
                        return r;
                    }
                }
            }
            return judged;
        }
        Ok(Ok(n)) => n,
    };
    format!("O compiled {r}")
}

/// Cause attribution for known finding KF-C07-3: does the type-checked program call the built-in
/// `join` (as an expression, not as the head of a for loop) on two arrays of literal size 0?
fn has_join_of_two_empty_arrays(typed: &TypedProgram) -> bool {
    use garble_lang::ast::{Accessor, BuiltInFnCall, ExprEnum, StmtEnum, VariantExprEnum};
    use garble_lang::{TypedExpr, TypedStmt};
    fn stmts(ss: &[TypedStmt]) -> bool {
        ss.iter().any(|s| match &s.inner {
            StmtEnum::Let(_, _, e) | StmtEnum::LetMut(_, _, e) | StmtEnum::Expr(e) => expr(e),
            StmtEnum::VarAssign(_, accs, e) => expr(e) || accs.iter().any(|(a, _)| matches!(a, Accessor::ArrayAccess { index, .. } if expr(index))),
            StmtEnum::ForEachLoop(_, e, body) => expr(e) || stmts(body),
            StmtEnum::JoinLoop(_, _, (a, b), body) => expr(a) || expr(b) || stmts(body),
        })
    }
    fn expr(e: &TypedExpr) -> bool {
        match &e.inner {
            ExprEnum::BuiltInFnCall(BuiltInFnCall::Join { args, .. }) => {
                (args.len() == 2 && args.iter().all(|a| matches!(a.ty, Type::Array(_, 0)))) || args.iter().any(expr)
            }
            ExprEnum::True | ExprEnum::False | ExprEnum::NumUnsigned(..) | ExprEnum::NumSigned(..) | ExprEnum::Identifier(_) | ExprEnum::Range(..) => false,
            ExprEnum::ArrayLiteral(es) | ExprEnum::TupleLiteral(es) | ExprEnum::FnCall(_, es) => es.iter().any(expr),
            ExprEnum::ArrayRepeatLiteral(x, _) | ExprEnum::ArrayRepeatLiteralConst(x, _) | ExprEnum::TupleAccess(x, _) | ExprEnum::StructAccess(x, _) | ExprEnum::UnaryOp(_, x) | ExprEnum::Cast(_, x) => expr(x),
            ExprEnum::ArrayAccess(a, b) | ExprEnum::Op(_, a, b) => expr(a) || expr(b),
            ExprEnum::StructLiteral(_, fs) => fs.iter().any(|(_, x)| expr(x)),
            ExprEnum::EnumLiteral(_, _, v) => matches!(v, VariantExprEnum::Tuple(es) if es.iter().any(expr)),
            ExprEnum::Match(x, arms) => expr(x) || arms.iter().any(|(_, b)| expr(b)),
            ExprEnum::Block(ss) => stmts(ss),
            ExprEnum::If(c, t, f) => expr(c) || expr(t) || expr(f),
        }
    }
    typed.fn_defs.values().any(|f| stmts(&f.body))
}

/// Programs that name constants of other parties cannot be compiled without them (the attempt above
/// ends in a located "missing constant" error): compile them again with a value synthesized for
/// every constant the type checker lists.
fn fe_compile_with_consts(typed: &TypedProgram) -> Option<String> {
    use garble_lang::literal::Literal;
    if typed.const_deps.is_empty() {
        return None;
    }
    let mut consts: HashMap<String, HashMap<String, Literal>> = HashMap::new();
    for (party, deps) in typed.const_deps.iter() {
        for (name, (ty, _)) in deps.iter() {
            let lit = match ty {
                Type::Bool => Literal::True,
                Type::Unsigned(t) => Literal::NumUnsigned(2, *t),
                Type::Signed(t) => Literal::NumSigned(-2, *t),
                _ => continue,
            };
            consts.entry(party.clone()).or_default().insert(name.clone(), lit);
        }
    }
    Some(match catch(|| typed.compile_with_constants("main", consts, &garble_lang::CompileOptions::default()).map(|(c, _, _)| c.gates.len())) {
        Err(p) => {
            // (same cause attribution as for the compilation without constants)
            let unspecified = catch(|| {
                let dbg = format!("{typed:?}");
                dbg.contains("Unsigned(Unspecified)") || dbg.contains("Signed(Unspecified)")
            })
            .unwrap_or(false);
            let stage = if unspecified { "compile[unspecified-literal-type-left-by-check]" } else { "compile-with-constants" };
            format!("P {stage} {}", one_line(&p))
        }
        Ok(Err(es)) => format!("E compile-with-constants {}", es.len()),
        Ok(Ok(n)) => format!("O compiled {n}"),
    })
}

fn fe_literal(cache: &mut Option<(u64, Option<TypedProgram>)>, payload: &str) -> String {
    let parts: Vec<&str> = payload.splitn(4, '\u{0}').collect();
    if parts.len() != 4 {
        return "H bad-literal-frame".into();
    }
    let (src, fn_name, idx, lit) = (parts[0], parts[1], parts[2].parse::<usize>().unwrap_or(0), parts[3]);
    let h = fnv(src.as_bytes());
    if cache.as_ref().map(|c| c.0) != Some(h) {
        let typed = catch(|| garble_lang::check(src)).ok().and_then(|r| r.ok());
        *cache = Some((h, typed));
    }
    let Some((_, Some(typed))) = cache.as_ref() else {
        return "H literal-base-program-does-not-check".into();
    };
    let Some(ty) = typed.fn_defs.get(fn_name).and_then(|f| f.params.get(idx)).map(|p| p.ty.clone()) else {
        return "H literal-no-such-parameter".into();
    };
    mark(b'l');
    match catch(|| garble_lang::literal::Literal::parse(typed, &ty, lit)) {
        Err(p) => format!("P literal {}", one_line(&p)),
        Ok(Err(e)) => judge_errors("literal", lit, e),
        Ok(Ok(l)) => match catch(|| format!("{l}")) {
            Err(p) => format!("P literal-display {}", one_line(&p)),
            Ok(_) => "O literal".into(),
        },
    }
}

/// Kind 'S' (used by C05): the whole pipeline on one program text, then - for every public function
/// the compiler accepts - validate(), the shape of the declared types, the register conversion and
/// its validate(), one evaluation on all-zero inputs and the decoding of the output by the declared
/// return type. Runs here, in a worker process, because programs the harness did not generate may
/// describe absurd sizes (an allocation failure aborts the process).
fn fe_shape(src: &str) -> String {
    use garble_lang::circuit_type::CircuitType;
    mark(b't');
    let typed = match catch(|| garble_lang::check(src)) {
        Err(p) => return format!("P check {}", one_line(&p)),
        Ok(Err(_)) => return "E check 1".into(),
        Ok(Ok(t)) => t,
    };
    FRONT_US.with(|f| f.set(1));
    let unspecified = catch(|| {
        let dbg = format!("{typed:?}");
        dbg.contains("Unsigned(Unspecified)") || dbg.contains("Signed(Unspecified)")
    })
    .unwrap_or(false);
    // a failure of a program with one of the two known root causes (KF-C05-1: a number literal whose
    // type the checker left unspecified; KF-C07-3: join call on two empty arrays) is attributed to it
    let verdict = fe_shape_judge(&typed);
    if verdict.starts_with('P') || verdict.starts_with('B') {
        if unspecified && has_suffix_free_number(src) {
            return "O known-cause:unspecified-literal-type-left-by-check".into();
        }
        if catch(|| has_join_of_two_empty_arrays(&typed)).unwrap_or(false) {
            return "O known-cause:join-call-on-two-empty-arrays".into();
        }
    }
    verdict
}

fn fe_shape_judge(typed: &TypedProgram) -> String {
    use garble_lang::circuit_type::CircuitType;
    let mut names: Vec<&String> = typed.fn_defs.iter().filter(|(_, f)| f.is_pub).map(|(n, _)| n).collect();
    names.sort();
    let mut judged = 0;
    let mut with_shape = 0;
    for name in names {
        mark(b'c');
        let (circ, fdef, const_sizes) = match catch(|| typed.compile_with_constants(name, HashMap::new(), &garble_lang::CompileOptions::default()).map(|(c, f, s)| (c, f.clone(), s))) {
            Err(p) => return format!("P compile fn {name}: {}", one_line(&p)),
            Ok(Err(_)) => continue,
            Ok(Ok(x)) => x,
        };
        judged += 1;
        if let Err(e) = circ.validate() {
            return format!("B shape fn {name}: the compiled circuit fails validate(): {e:?}");
        }
        if let Some((parties, ret_bits)) = super::c05_shapes::declared_shape(&typed, name) {
            with_shape += 1;
            if circ.input_gates != parties {
                return format!("B shape fn {name}: party sizes {:?}, the declared parameter types need {:?}", circ.input_gates, parties);
            }
            if circ.output_gates.len() != crate::gl::PANIC_BITS + ret_bits {
                return format!("B shape fn {name}: {} output bits, the declared return type needs 161 + {ret_bits}", circ.output_gates.len());
            }
        }
        match catch(|| garble_lang::register_circuit::Circuit::from(&circ)) {
            Err(p) => return format!("P register-conversion fn {name}: {}", one_line(&p)),
            Ok(r) => {
                if let Err(e) = r.validate() {
                    return format!("B shape fn {name}: the register circuit fails validate(): {e:?}");
                }
            }
        }
        let inputs: Vec<Vec<bool>> = circ.input_gates.iter().map(|n| vec![false; *n]).collect();
        let n_out = circ.output_gates.len();
        let gp = garble_lang::GarbleProgram { program: typed.clone(), main: fdef, circuit: CircuitType::Ssa(circ), consts: HashMap::new(), const_sizes };
        match catch(|| {
            let out = gp.circuit.eval(&inputs);
            (out.len(), gp.parse_output(&out).map(|_| ()))
        }) {
            Err(p) => return format!("P eval-and-decode fn {name}: {}", one_line(&p)),
            Ok((n, r)) => {
                if n != n_out {
                    return format!("B shape fn {name}: eval returned {n} bits for {n_out} outputs");
                }
                match r {
                    Ok(()) | Err(garble_lang::eval::EvalError::Panic(_)) => {}
                    Err(e) => return format!("B shape fn {name}: the output does not decode to a value of the declared return type: {}", one_line(&format!("{e:?}"))),
                }
            }
        }
    }
    format!("O judged:{judged}:{with_shape}")
}

/// What the shape worker said about one program (interface for C05).
pub enum ShapeVerdict {
    /// rejected by the type checker (or every public function rejected by the compiler)
    Rejected,
    /// accepted; (public functions judged, of these with a shape computed from the declared types)
    Held(usize, usize),
    /// a known root cause recognised by the worker (KF-C05-1 / KF-C07-3 family)
    KnownCause(String),
    /// accepted, and the compiler / converter / evaluator panicked (stage, message)
    Panicked(String, String),
    /// accepted, and the product is wrong
    Bad(String),
    /// time-out, memory exhaustion, crash of the checker: not judged here (C07 judges totality)
    NotJudged(String),
}

/// A worker process that judges programs with kind 'S'.
pub struct ShapeRunner {
    mgr: Manager,
}

impl ShapeRunner {
    pub fn new() -> Self {
        ShapeRunner { mgr: Manager::new(10) }
    }
    pub fn run(&mut self, class: &'static str, programs: &[String]) -> Vec<ShapeVerdict> {
        let inputs: Vec<Input> = programs.iter().map(|p| Input { class, origin: String::new(), kind: 'S', compile: true, text: p.clone() }).collect();
        self.mgr
            .run(&inputs)
            .into_iter()
            .enumerate()
            .map(|(i, (_, out))| match out {
                // an accepted program of ordinary size on which a later stage overflows the stack is
                // a crash of the compiler on an accepted program (the towers of KF-C07-2 are longer)
                Out::Died(stage, how) if stage != "check" && how.contains("stack-overflow") && inputs[i].text.len() < 4000 => ShapeVerdict::Panicked(stage, format!("the worker process died: {how}")),
                Out::Errors(..) => ShapeVerdict::Rejected,
                Out::Ok(w) if w.starts_with("known-cause:") => ShapeVerdict::KnownCause(w["known-cause:".len()..].to_string()),
                Out::Ok(w) => {
                    let mut it = w.split(':').skip(1).map(|x| x.parse::<usize>().unwrap_or(0));
                    match (it.next().unwrap_or(0), it.next().unwrap_or(0)) {
                        (0, _) => ShapeVerdict::Rejected,
                        (j, s) => ShapeVerdict::Held(j, s),
                    }
                }
                Out::Panic(stage, msg) if stage == "check" => ShapeVerdict::NotJudged(format!("checker panicked: {msg}")),
                Out::Panic(stage, msg) if msg.contains("capacity overflow") => ShapeVerdict::NotJudged(format!("{stage}: capacity overflow")),
                Out::Panic(stage, msg) => ShapeVerdict::Panicked(stage, msg),
                Out::Bad(_, what) => ShapeVerdict::Bad(what),
                Out::Harness(w) => ShapeVerdict::NotJudged(format!("harness: {w}")),
                Out::Timeout(stage) => ShapeVerdict::NotJudged(format!("time-out in stage {stage}")),
                Out::Died(stage, how) => ShapeVerdict::NotJudged(format!("worker died in stage {stage}: {how}")),
            })
            .collect()
    }
}

fn worker_loop() {
    let stdin = std::io::stdin();
    let mut inp = stdin.lock();
    let mut cache = None;
    loop {
        let mut header = String::new();
        match inp.read_line(&mut header) {
            Ok(0) | Err(_) => return,
            Ok(_) => {}
        }
        let mut it = header.split_whitespace();
        let (Some(kind), Some(flag), Some(len)) = (it.next(), it.next(), it.next().and_then(|l| l.parse::<usize>().ok())) else {
            return;
        };
        let mut buf = vec![0u8; len];
        if inp.read_exact(&mut buf).is_err() {
            return;
        }
        let Ok(text) = String::from_utf8(buf) else {
            println!(" H frame-not-utf8 0");
            continue;
        };
        let t0 = Instant::now();
        FRONT_US.with(|f| f.set(0));
        let ans = match kind {
            "P" => fe_program(&text, flag == "1"),
            "L" => fe_literal(&mut cache, &text),
            "S" => fe_shape(&text),
            _ => "H unknown-kind".to_string(),
        };
        let us = t0.elapsed().as_micros();
        let front = match FRONT_US.with(|f| f.get()) {
            0 => us as u64,
            f => f,
        };
        let out = std::io::stdout();
        let mut o = out.lock();
        let _ = writeln!(o, " {front}/{us} {ans}");
        let _ = o.flush();
    }
}

pub fn worker(_args: &[String]) -> i32 {
    // the front end runs on a thread with the default main-thread stack size of 8 MiB
    let h = std::thread::Builder::new().stack_size(8 << 20).spawn(worker_loop).unwrap();
    match h.join() {
        Ok(()) => 0,
        Err(_) => 3,
    }
}

// =============================================================================================
// parent side: process manager

#[derive(Clone, Debug)]
pub struct Input {
    pub class: &'static str,
    pub origin: String,
    /// 'P' program, 'L' literal
    pub kind: char,
    pub compile: bool,
    /// program text, or for literals the frame `src \0 fn \0 idx \0 literal`
    pub text: String,
}

impl Input {
    fn shown(&self) -> Value {
        if self.kind == 'L' {
            let parts: Vec<&str> = self.text.splitn(4, '\u{0}').collect();
            json!({"class": self.class, "origin": self.origin, "kind": "literal", "program": parts.first(), "fn": parts.get(1), "param": parts.get(2), "literal": parts.get(3)})
        } else {
            json!({"class": self.class, "origin": self.origin, "kind": "program", "input": self.text})
        }
    }
    fn judged_text(&self) -> &str {
        if self.kind == 'L' {
            self.text.rsplit('\u{0}').next().unwrap_or("")
        } else {
            &self.text
        }
    }
}

#[derive(Clone, Debug)]
enum Out {
    /// O ...
    Ok(String),
    /// E stage n
    Errors(String, u64),
    /// P stage msg
    Panic(String, String),
    /// B stage what
    Bad(String, String),
    /// harness-side problem (H ...)
    Harness(String),
    /// no answer within the deadline; stage = last stage entered
    Timeout(String),
    /// the worker process died; (stage, how)
    Died(String, String),
}

fn stage_name(marks: &str) -> String {
    match marks.trim().chars().last() {
        Some('s') => "scan",
        Some('p') => "parse",
        Some('t') => "check",
        Some('c') => "compile",
        Some('l') => "literal",
        _ => "before-scan",
    }
    .to_string()
}

enum Msg {
    Line(String),
    Eof,
}

struct Fe {
    child: Child,
    stdin: Option<ChildStdin>,
    rx: mpsc::Receiver<Msg>,
    partial: Arc<Mutex<Vec<u8>>>,
    stderr_path: PathBuf,
}

static SPAWN_COUNTER: std::sync::atomic::AtomicU64 = std::sync::atomic::AtomicU64::new(0);

fn work_dir() -> PathBuf {
    let d = crate::util::verif_dir().join(".work").join(format!("c07-{}", std::process::id()));
    let _ = std::fs::create_dir_all(&d);
    d
}

/// Path of the worker executable: the checked-optimised build this process runs from, or (thorough
/// tier, every second worker) the plain release build, in which arithmetic wraps instead of panicking.
fn worker_exe(plain: bool) -> PathBuf {
    let exe = std::env::current_exe().expect("harness: current_exe");
    if plain {
        if let Some(target) = exe.parent().and_then(|p| p.parent()) {
            let p = target.join("plain").join("gverif");
            if p.exists() {
                return p;
            }
        }
    }
    exe
}

impl Fe {
    fn spawn(plain: bool) -> Fe {
        let n = SPAWN_COUNTER.fetch_add(1, std::sync::atomic::Ordering::SeqCst);
        let stderr_path = work_dir().join(format!("stderr-{n}.txt"));
        let errf = std::fs::File::create(&stderr_path).expect("harness: cannot create stderr file");
        let exe = worker_exe(plain);
        // address-space limit of 2 GiB: an input that makes the front end allocate without bound
        // ends in an allocation failure (abort) instead of taking the machine down
        let mut child = Command::new("sh")
            .arg("-c")
            .arg("ulimit -v 2097152; exec \"$0\" worker fe")
            .arg(exe)
            .stdin(Stdio::piped())
            .stdout(Stdio::piped())
            .stderr(Stdio::from(errf))
            .spawn()
            .expect("harness: cannot spawn worker");
        let stdin = child.stdin.take();
        let mut stdout = child.stdout.take().unwrap();
        let (tx, rx) = mpsc::channel();
        let partial = Arc::new(Mutex::new(Vec::new()));
        let partial2 = partial.clone();
        std::thread::spawn(move || {
            let mut buf = [0u8; 4096];
            loop {
                match stdout.read(&mut buf) {
                    Ok(0) | Err(_) => {
                        let _ = tx.send(Msg::Eof);
                        return;
                    }
                    Ok(n) => {
                        let mut p = partial2.lock().unwrap();
                        p.extend_from_slice(&buf[..n]);
                        while let Some(pos) = p.iter().position(|b| *b == b'\n') {
                            let line: Vec<u8> = p.drain(..=pos).collect();
                            let _ = tx.send(Msg::Line(String::from_utf8_lossy(&line[..line.len() - 1]).to_string()));
                        }
                    }
                }
            }
        });
        Fe { child, stdin, rx, partial, stderr_path }
    }

    fn kill(&mut self) {
        self.stdin = None;
        let _ = self.child.kill();
        let _ = self.child.wait();
        let _ = std::fs::remove_file(&self.stderr_path);
    }

    fn how_died(&mut self) -> String {
        self.stdin = None;
        let status = self.child.wait();
        let err = std::fs::read_to_string(&self.stderr_path).unwrap_or_default();
        let _ = std::fs::remove_file(&self.stderr_path);
        if err.contains("overflowed its stack") {
            return "stack-overflow".into();
        }
        if err.contains("memory allocation of") || err.contains("capacity overflow") || err.contains("out of memory") {
            return "allocation-failure".into();
        }
        use std::os::unix::process::ExitStatusExt;
        match status {
            Ok(s) => match s.signal() {
                Some(11) => "signal-11 (probably stack overflow)".into(),
                Some(sig) => format!("signal-{sig}"),
                None => format!("exit-{}", s.code().unwrap_or(-1)),
            },
            Err(_) => "unknown".into(),
        }
    }
}

fn parse_answer(line: &str) -> (u64, Out) {
    // "<marks> <micros> <K> <rest>"
    let (marks, rest) = line.split_once(' ').unwrap_or((line, ""));
    let _ = marks;
    let mut it = rest.splitn(3, ' ');
    // "<front-end micros>/<total micros>": the front-end part is what the bounded-progress clause is about
    let us = it.next().and_then(|s| s.split('/').next().and_then(|f| f.parse::<u64>().ok())).unwrap_or(0);
    let k = it.next().unwrap_or("");
    let tail = it.next().unwrap_or("");
    let (a, b) = tail.split_once(' ').unwrap_or((tail, ""));
    let out = match k {
        "O" => Out::Ok(a.to_string()),
        "E" => Out::Errors(a.to_string(), b.trim().parse().unwrap_or(0)),
        "P" => Out::Panic(a.to_string(), b.to_string()),
        "B" => Out::Bad(a.to_string(), b.to_string()),
        _ => Out::Harness(format!("{k} {tail}")),
    };
    (us, out)
}

/// A manager owns one worker process and restarts it when it hangs or dies.
struct Manager {
    fe: Fe,
    deadline: Duration,
    respawns: u64,
    plain: bool,
}

impl Manager {
    fn new(deadline_s: u64) -> Self {
        Manager::with_profile(deadline_s, false)
    }

    fn with_profile(deadline_s: u64, plain: bool) -> Self {
        Manager { fe: Fe::spawn(plain), deadline: Duration::from_secs(deadline_s), respawns: 0, plain }
    }

    /// Run all inputs, in order; returns (micros, outcome) per input.
    fn run(&mut self, inputs: &[Input]) -> Vec<(u64, Out)> {
        let mut res: Vec<(u64, Out)> = Vec::with_capacity(inputs.len());
        let mut i = 0;
        while i < inputs.len() {
            // one batch: at most 48 inputs and 40 KiB, so that the pipe never blocks the writer
            let mut j = i;
            let mut bytes = 0usize;
            let mut frame = Vec::new();
            while j < inputs.len() && j - i < 48 && (j == i || bytes + inputs[j].text.len() < 40_000) {
                let inp = &inputs[j];
                frame.extend_from_slice(format!("{} {} {}\n", inp.kind, if inp.compile { 1 } else { 0 }, inp.text.len()).as_bytes());
                frame.extend_from_slice(inp.text.as_bytes());
                bytes += inp.text.len() + 16;
                j += 1;
            }
            if let Some(si) = self.fe.stdin.as_mut() {
                let _ = si.write_all(&frame);
                let _ = si.flush();
            }
            let mut answered = i;
            let mut restart = false;
            while answered < j {
                match self.fe.rx.recv_timeout(self.deadline) {
                    Ok(Msg::Line(l)) => {
                        res.push(parse_answer(&l));
                        answered += 1;
                    }
                    Ok(Msg::Eof) => {
                        let marks = String::from_utf8_lossy(&self.fe.partial.lock().unwrap()).to_string();
                        let how = self.fe.how_died();
                        res.push((0, Out::Died(stage_name(&marks), how)));
                        answered += 1;
                        restart = true;
                        break;
                    }
                    Err(RecvTimeoutError::Timeout) => {
                        let marks = String::from_utf8_lossy(&self.fe.partial.lock().unwrap()).to_string();
                        self.fe.kill();
                        res.push((self.deadline.as_micros() as u64, Out::Timeout(stage_name(&marks))));
                        answered += 1;
                        restart = true;
                        break;
                    }
                    Err(RecvTimeoutError::Disconnected) => {
                        let how = self.fe.how_died();
                        res.push((0, Out::Died("unknown".into(), how)));
                        answered += 1;
                        restart = true;
                        break;
                    }
                }
            }
            if restart {
                self.fe = Fe::spawn(self.plain);
                self.respawns += 1;
            }
            // inputs of the batch that were not answered are sent again in the next batch
            i = answered;
        }
        res
    }
}

impl Drop for Manager {
    fn drop(&mut self) {
        self.fe.kill();
    }
}

// =============================================================================================
// own lexer (token boundaries of a text; independent of the scanner under test)

const PUNCT: &[&str] = &[
    "..=", "<<=", ">>=", "..", "->", "=>", "::", "==", "!=", "<=", ">=", "<<", ">>", "&&", "||", "+=", "-=", "*=", "/=", "%=", "&=", "|=", "^=",
];

/// Byte ranges of the tokens of `src` (comments and white space skipped).
pub fn lex(src: &str) -> Vec<(usize, usize)> {
    let b = src.as_bytes();
    let mut out = vec![];
    let mut i = 0;
    while i < b.len() {
        let c = b[i];
        if c.is_ascii_whitespace() {
            i += 1;
            continue;
        }
        if c == b'/' && i + 1 < b.len() && b[i + 1] == b'/' {
            while i < b.len() && b[i] != b'\n' {
                i += 1;
            }
            continue;
        }
        if c == b'/' && i + 1 < b.len() && b[i + 1] == b'*' {
            let mut level = 1;
            i += 2;
            while i < b.len() && level > 0 {
                if b[i] == b'/' && i + 1 < b.len() && b[i + 1] == b'*' {
                    level += 1;
                    i += 2;
                } else if b[i] == b'*' && i + 1 < b.len() && b[i + 1] == b'/' {
                    level -= 1;
                    i += 2;
                } else {
                    i += 1;
                }
            }
            continue;
        }
        if c.is_ascii_alphanumeric() || c == b'_' {
            let s = i;
            while i < b.len() && (b[i].is_ascii_alphanumeric() || b[i] == b'_') {
                i += 1;
            }
            out.push((s, i));
            continue;
        }
        if let Some(p) = PUNCT.iter().find(|p| src[i..].as_bytes().starts_with(p.as_bytes())) {
            out.push((i, i + p.len()));
            i += p.len();
            continue;
        }
        // one (possibly multi-byte) character
        let mut e = i + 1;
        while e < b.len() && !src.is_char_boundary(e) {
            e += 1;
        }
        out.push((i, e));
        i = e;
    }
    out
}

pub const ALPHABET: &[&str] = &[
    "const", "struct", "enum", "fn", "let", "if", "else", "match", "mut", "as", "pub", "for", "in", ".", "..", "..=", ",", ";", ":", "::", "->", "=>", "(", ")", "{", "}", "[", "]", "+", "-",
    "*", "/", "%", "&", "|", "^", "!", "<", ">", "=", "==", "!=", "<=", ">=", "<<", ">>", "&&", "||", "+=", "-=", "*=", "/=", "%=", "&=", "|=", "^=", "<<=", ">>=", "x", "y", "main", "a", "Foo",
    "_", "true", "false", "bool", "u8", "u16", "u32", "u64", "usize", "i8", "i16", "i32", "i64", "join_iter", "join", "max", "min", "0", "1", "2u8", "255u8", "256u8", "-1", "-128i8",
    "-129i8", "3usize", "300", "0i8", "7i64", "4294967296", "18446744073709551615", "18446744073709551616", "-9223372036854775808", "-9223372036854775809", "1e5", "0x10", "1_000", "//",
    "/*", "*/", "\"", "'", "#", "@", "\u{e9}", "\u{1F600}", "\n", "\r\n", "\t",
];

const LIT_ALPHABET: &[&str] = &[
    "true", "false", "0", "1", "255", "256", "-1", "-129", "7u8", "7i8", "300u16", "1usize", "18446744073709551615", "18446744073709551616", "-9223372036854775809", "(", ")", "[", "]", "{",
    "}", ",", ";", ":", "::", "..", "..=", "-", "+", "_", "Foo", "x", "a", "None", "Some", "/*", "//", "\u{e9}", "\n", "=", ".",
];

/// Tower inputs `<shape> depth <d>` that are left-deep chains with at least 1024 links.
fn is_long_chain_tower(origin: &str) -> bool {
    const CHAINS: &[&str] = &["binary-chain", "cast-chain", "field-chain", "index-chain"];
    let Some((shape, depth)) = origin.split_once(" depth ") else { return false };
    CHAINS.contains(&shape) && depth.parse::<usize>().map(|d| d >= 1024).unwrap_or(false)
}

fn has_suffix_free_number(src: &str) -> bool {
    lex(src).iter().any(|(s, e)| src[*s..*e].bytes().all(|b| b.is_ascii_digit()))
}

fn splice(src: &str, from: usize, to: usize, with: &str) -> String {
    let mut s = String::with_capacity(src.len() + with.len());
    s.push_str(&src[..from]);
    s.push_str(with);
    s.push_str(&src[to..]);
    s
}

// =============================================================================================
// statistics

#[derive(Default)]
struct Finding {
    count: u64,
    witness: Option<Input>,
    detail: String,
}

#[derive(Default)]
struct St {
    by_class: Counts,
    by_outcome: Counts,
    by_class_outcome: Counts,
    distinct: HashSet<u64>,
    n: u64,
    findings: BTreeMap<String, Finding>,
    /// inputs that ran into the deadline in scan/parse/check/literal: to be re-run alone
    hang_candidates: Vec<Input>,
    slowest_us: u64,
    slowest: Option<Value>,
    samples: BTreeMap<&'static str, Value>,
    inconclusive: Counts,
    exhaustive_classes: BTreeMap<&'static str, bool>,
    respawns: u64,
    front_us_total: u64,
    by_profile: Counts,
}

impl St {
    fn finding(&mut self, sig: String, inp: &Input, detail: String) {
        let f = self.findings.entry(sig).or_default();
        f.count += 1;
        let better = match &f.witness {
            None => true,
            Some(w) => inp.judged_text().len() < w.judged_text().len(),
        };
        if better {
            f.witness = Some(inp.clone());
            f.detail = detail;
        }
    }

    fn record(&mut self, inp: &Input, us: u64, out: &Out) {
        self.n += 1;
        self.by_class.inc(inp.class);
        self.distinct.insert(fnv(inp.text.as_bytes()));
        let oname = match out {
            Out::Ok(w) => format!("ok:{w}"),
            Out::Errors(stage, _) => format!("errors:{stage}"),
            Out::Panic(stage, _) => format!("PANIC:{stage}"),
            Out::Bad(stage, w) => format!("BAD-ERROR:{stage}:{}", w.split(' ').next().unwrap_or("")),
            Out::Harness(w) => format!("harness:{w}"),
            Out::Timeout(stage) => format!("timeout:{stage}"),
            Out::Died(stage, how) => format!("DIED:{stage}:{how}"),
        };
        self.by_outcome.inc(&oname);
        self.by_class_outcome.inc(&format!("{} / {}", inp.class, oname));
        if !matches!(out, Out::Timeout(_) | Out::Died(..)) {
            self.front_us_total += us;
            if us > self.slowest_us {
                self.slowest_us = us;
                self.slowest = Some(json!({"micros": us, "outcome": oname, "input": inp.shown()}));
            }
        }
        if !self.samples.contains_key(inp.class) && inp.text.len() < 600 && (self.n % 7 == 3) {
            self.samples.insert(inp.class, json!({"input": inp.shown(), "outcome": oname}));
        }
        match out {
            Out::Ok(_) | Out::Errors(..) => {}
            // an allocation request above isize::MAX is memory exhaustion as well (Vec reports it
            // as a panic instead of an allocation failure)
            Out::Panic(stage, msg) if stage.starts_with("compile") && msg.starts_with("capacity overflow") => {
                self.inconclusive.inc("compile stage asked for more memory than the address space holds (capacity overflow; not judged)")
            }
            // the width defect of known finding KF-C05-1 (a suffix-free number literal keeps 32 wires
            // where its context needs another width) surfaces in the compiler as a panic; it is
            // bucketed under its own signature, keyed on cause: compile-stage panic on a program
            // whose type-checked form still contains a number literal of unspecified type (reported
            // by the worker) and whose text contains a suffix-free number. Everything else keeps
            // its own signature.
            Out::Panic(stage, msg) if stage == "compile[unspecified-literal-type-left-by-check]" && has_suffix_free_number(inp.judged_text()) => {
                self.finding("panic:compile:program-accepted-with-a-number-literal-of-unspecified-type".into(), inp, msg.clone())
            }
            // known finding KF-C07-3: the value of `join(a, b)` on two arrays of size 0 has the type
            // `[_; 0 + 0 - 1]`, whose size wraps around; keyed on cause (reported by the worker from
            // the type-checked program)
            Out::Panic(stage, msg) if stage == "compile[join-call-on-two-empty-arrays]" => self.finding("panic:compile:join-call-on-two-arrays-of-size-0".into(), inp, msg.clone()),
            Out::Panic(stage, msg) => self.finding(format!("panic:{stage}:{}", panic_signature(msg)), inp, msg.clone()),
            Out::Bad(stage, w) => self.finding(format!("bad-error:{stage}:{}", w.split(' ').next().unwrap_or("")), inp, w.clone()),
            Out::Harness(w) => self.inconclusive.inc(&format!("harness: {w}")),
            Out::Timeout(stage) => {
                if stage == "compile" {
                    // a mutant may legitimately describe an enormous circuit
                    self.inconclusive.inc("compile stage ran into the deadline (not judged)");
                } else {
                    self.hang_candidates.push(inp.clone());
                }
            }
            // known finding KF-C07-2: left-deep operator / postfix chains of >= 1024 links (built by
            // loops in the parser, so the nesting limit does not bound them) overflow the stack of the
            // recursive type checker / compiler. Keyed on the exact tower inputs (shape and depth).
            Out::Died(_, how) if how.contains("stack") && inp.class == "nesting tower / repetition" && is_long_chain_tower(&inp.origin) => {
                self.finding("died:stack-overflow:left-deep-chain-of-1024-or-more-links".into(), inp, format!("worker process died: {how} ({})", inp.origin));
            }
            Out::Died(stage, how) => {
                if stage == "compile" && how == "allocation-failure" {
                    self.inconclusive.inc("compile stage exhausted the 2 GiB address space (not judged)");
                } else {
                    self.finding(format!("died:{stage}:{how}"), inp, format!("worker process died in stage {stage}: {how}"));
                }
            }
        }
    }

    fn merge(&mut self, o: St) {
        self.by_class.merge(&o.by_class);
        self.by_outcome.merge(&o.by_outcome);
        self.by_class_outcome.merge(&o.by_class_outcome);
        self.distinct.extend(o.distinct);
        self.n += o.n;
        for (k, f) in o.findings {
            let e = self.findings.entry(k).or_default();
            e.count += f.count;
            let better = match (&e.witness, &f.witness) {
                (None, _) => true,
                (Some(a), Some(b)) => b.judged_text().len() < a.judged_text().len(),
                _ => false,
            };
            if better {
                e.witness = f.witness;
                e.detail = f.detail;
            }
        }
        self.hang_candidates.extend(o.hang_candidates);
        if o.slowest_us > self.slowest_us {
            self.slowest_us = o.slowest_us;
            self.slowest = o.slowest;
        }
        for (k, v) in o.samples {
            self.samples.entry(k).or_insert(v);
        }
        self.inconclusive.merge(&o.inconclusive);
        for (k, v) in o.exhaustive_classes {
            let e = self.exhaustive_classes.entry(k).or_insert(true);
            *e = *e && v;
        }
        self.respawns += o.respawns;
        self.front_us_total += o.front_us_total;
        self.by_profile.merge(&o.by_profile);
    }
}

struct Feeder<'a> {
    mgr: Manager,
    st: St,
    buf: Vec<Input>,
    ctx: &'a Ctx,
}

impl<'a> Feeder<'a> {
    fn push(&mut self, inp: Input) {
        if self.ctx.stop.load(std::sync::atomic::Ordering::Relaxed) {
            return;
        }
        self.buf.push(inp);
        if self.buf.len() >= 256 {
            self.flush();
        }
    }
    fn flush(&mut self) {
        if self.buf.is_empty() {
            return;
        }
        let inputs = std::mem::take(&mut self.buf);
        let res = self.mgr.run(&inputs);
        for (inp, (us, out)) in inputs.iter().zip(res.iter()) {
            self.st.record(inp, *us, out);
        }
        // many hangs: every further one costs the full deadline; wind the run down (the ones seen
        // are confirmed and reported)
        if self.st.hang_candidates.len() >= 6 {
            self.ctx.stop.store(true, std::sync::atomic::Ordering::Relaxed);
        }
    }
    fn prog(&mut self, class: &'static str, origin: &str, text: String, compile: bool) {
        self.push(Input { class, origin: origin.to_string(), kind: 'P', compile, text });
    }
}

// =============================================================================================
// workloads

fn char_boundaries(s: &str) -> Vec<usize> {
    let mut v: Vec<usize> = s.char_indices().map(|(i, _)| i).collect();
    v.push(s.len());
    v
}

/// Nesting towers and other deep / degenerate shapes.
fn towers(depth: usize) -> Vec<(&'static str, String)> {
    let d = depth;
    let rep = |s: &str, n: usize| s.repeat(n);
    let mut v: Vec<(&'static str, String)> = vec![];
    let wrap = |body: String| format!("pub fn main(x: u8, b: bool) -> u8 {{ {body} }}");
    v.push(("parens", wrap(format!("{}x{}", rep("(", d), rep(")", d)))));
    v.push(("parens-unclosed", wrap(format!("{}x", rep("(", d)))));
    v.push(("parens-only-open", rep("(", d)));
    v.push(("parens-only-close", format!("pub fn main(x: u8) -> u8 {{ x {}", rep(")", d))));
    v.push(("blocks", wrap(format!("{}x{}", rep("{", d), rep("}", d)))));
    v.push(("blocks-unclosed", wrap(format!("{}x", rep("{", d)))));
    v.push(("braces-only-close", rep("}", d)));
    v.push(("array-literal", format!("pub fn main(x: u8) -> u8 {{ let a = {}x{}; x }}", rep("[", d), rep("]", d))));
    v.push(("brackets-unclosed", wrap(format!("{}x", rep("[", d)))));
    v.push(("array-type", format!("pub fn main(x: {}u8{}) -> u8 {{ 0u8 }}", rep("[", d), rep("; 1]", d))));
    v.push(("tuple-type", format!("pub fn main(x: {}u8, u8{}) -> u8 {{ 0u8 }}", rep("(", d), rep(", u8)", d))));
    v.push(("unary-minus", format!("pub fn main(x: i8) -> i8 {{ {} x }}", rep("- ", d))));
    v.push(("unary-not", wrap(format!("{}x", rep("!", d)))));
    v.push(("if-nest", wrap(format!("{}x{}", rep("if b { ", d), rep(" } else { x }", d)))));
    v.push(("if-nest-unclosed", wrap(format!("{}x", rep("if b { ", d)))));
    v.push(("else-if-chain", wrap(format!("{} {{ x }}", rep("if b { x } else ", d)))));
    v.push(("match-nest", wrap(format!("{}x{}", rep("match x { _ => ", d), rep(" }", d)))));
    v.push(("match-nest-unclosed", wrap(format!("{}x", rep("match x { _ => ", d)))));
    v.push(("binary-chain", wrap(format!("x{}", rep(" ^ x", d)))));
    v.push(("binary-right-nest", wrap(format!("{}x{}", rep("x ^ (", d), rep(")", d)))));
    v.push(("cast-chain", wrap(format!("x{}", rep(" as u8", d)))));
    v.push(("tuple-nest", format!("pub fn main(x: u8) -> u8 {{ let t = {}x{}; x }}", rep("(", d), rep(", x)", d))));
    v.push(("tuple-pattern-nest", format!("pub fn main(x: u8) -> u8 {{ let {}y{} = x; x }}", rep("(", d), rep(", z)", d))));
    v.push(("field-chain", wrap(format!("x{}", rep(".0", d)))));
    v.push(("index-chain", wrap(format!("x{}", rep("[0]", d)))));
    v.push(("call-nest", format!("fn f(x: u8) -> u8 {{ x }} pub fn main(x: u8) -> u8 {{ {}x{} }}", rep("f(", d), rep(")", d))));
    v.push(("for-nest", wrap(format!("{}{} x", rep("for i in 0u8..1u8 { ", d), rep(" }", d)))));
    v.push(("let-chain", wrap(format!("{} x", rep("let x = x; ", d)))));
    v.push(("comment-nest", wrap(format!("{} x {} x", rep("/* ", d), rep(" */", d)))));
    v.push(("comment-nest-unclosed", wrap(format!("x {} x", rep("/* ", d)))));
    v.push(("comment-close-only", wrap(format!("x {} ", rep("*/ ", d)))));
    v.push(("line-comments", format!("{}pub fn main(x: u8) -> u8 {{ x }}", rep("// c\n", d))));
    v.push(("semicolons", wrap(format!("{} x", rep(";", d)))));
    v.push(("commas", format!("pub fn main(x: u8{}) -> u8 {{ x }}", rep(",", d))));
    v.push(("range-pattern-chain", wrap(format!("match x {{ {} _ => x }}", rep("0u8..=1u8 => x, ", d)))));
    v.push(("or-like-arms", wrap(format!("match x {{ {} }}", rep("_ => x,", d)))));
    v.push(("struct-nest", format!("struct S {{ a: u8 }} pub fn main(x: u8) -> u8 {{ let s = {}S {{ a: x }}{}; x }}", rep("(", d), rep(")", d))));
    v.push(("newlines", format!("pub fn main(x: u8) -> u8 {{{} y }}", rep("\n", d))));
    v.push(("crlf", format!("pub fn main(x: u8) -> u8 {{{} y }}", rep("\r\n", d))));
    v.push(("long-identifier", wrap(rep("x", d * 8))));
    v.push(("long-number", wrap(rep("9", d))));
    v.push(("dots", wrap(format!("x{}", rep(".", d)))));
    v
}

fn random_text(rng: &mut Rng, kind: u64) -> String {
    let len = 1 + rng.usize_below(300);
    match kind {
        0 => {
            // random bytes made valid by lossy decoding
            let bytes: Vec<u8> = (0..len).map(|_| rng.below(256) as u8).collect();
            String::from_utf8_lossy(&bytes).to_string()
        }
        1 => {
            // printable ASCII
            (0..len).map(|_| (32 + rng.below(95)) as u8 as char).collect()
        }
        2 => {
            // characters the scanner cares about, plus multi-byte characters and line ends
            const CH: &[&str] = &[
                "/", "*", "/*", "*/", "//", "\n", "\r\n", "\r", " ", "\t", "-", "1", "9", "u8", "i8", "a", "_", ".", "=", "<", ">", "&", "|", "!", ":", "\u{e9}", "\u{4e16}", "\u{1F600}", "\u{0}", "\u{feff}",
                "\"", "'", "\\", "(", ")", "{", "}",
            ];
            (0..len).map(|_| *rng.pick(CH)).collect()
        }
        _ => {
            // arbitrary unicode scalar values
            (0..len).filter_map(|_| char::from_u32(rng.below(0x11_0000) as u32)).collect()
        }
    }
}

fn soup(rng: &mut Rng, alphabet: &[&str], max: usize) -> String {
    let n = 1 + rng.usize_below(max);
    let mut s = String::new();
    for _ in 0..n {
        s.push_str(*rng.pick(alphabet));
        s.push_str(if rng.chance(1, 12) { "\n" } else { " " });
    }
    s
}

/// A skeleton-guided soup: a valid header followed by random tokens (reaches the statement /
/// expression parser and the type checker far more often than pure soup).
fn guided_soup(rng: &mut Rng) -> String {
    let heads = [
        "pub fn main(x: u8, y: u8) -> u8 { ",
        "pub fn main(x: i32, b: bool) -> i32 { let mut a = x; ",
        "struct Foo { a: u8, y: bool } pub fn main(x: Foo) -> u8 { ",
        "enum Foo { A, B(u8), C(u8, bool) } pub fn main(x: Foo) -> u8 { match x { ",
        "const N: usize = 2; pub fn main(x: [u8; N]) -> u8 { ",
        "pub fn main(a: [(u8, u8); 2], y: [(u8, u8); 2]) -> u8 { for i in join_iter(a, y) { ",
    ];
    let mut s = rng.pick(&heads).to_string();
    s.push_str(&soup(rng, ALPHABET, 40));
    if rng.chance(2, 3) {
        s.push_str(" }");
    }
    if rng.chance(1, 3) {
        s.push_str(" }");
    }
    s
}

// ---- literal texts

fn unsigned_text(rng: &mut Rng, t: &UnsignedNumType) -> String {
    let max: u64 = t.max().unwrap_or(u32::MAX as u64);
    let v = match rng.below(4) {
        0 => 0,
        1 => max,
        2 => rng.below(4),
        _ => rng.next_u64() % (max / 2 + 1),
    };
    if rng.bool() {
        format!("{v}{t}")
    } else {
        format!("{v}")
    }
}

fn signed_text(rng: &mut Rng, t: &SignedNumType) -> String {
    let (min, max) = (t.min().unwrap_or(i32::MIN as i64), t.max().unwrap_or(i32::MAX as i64));
    let v = match rng.below(5) {
        0 => 0,
        1 => max,
        2 => min,
        3 => -1,
        _ => (rng.next_u64() as i64) % (max / 2 + 1),
    };
    if rng.bool() {
        format!("{v}{t}")
    } else {
        format!("{v}")
    }
}

fn literal_text(rng: &mut Rng, p: &TypedProgram, ty: &Type, depth: u32) -> Option<String> {
    Some(match ty {
        Type::Bool => if rng.bool() { "true" } else { "false" }.to_string(),
        Type::Unsigned(t) => unsigned_text(rng, t),
        Type::Signed(t) => signed_text(rng, t),
        Type::Array(e, n) => {
            if *n > 40 || depth > 4 {
                return None;
            }
            let mut parts = vec![];
            for _ in 0..*n {
                parts.push(literal_text(rng, p, e, depth + 1)?);
            }
            format!("[{}]", parts.join(", "))
        }
        Type::Tuple(ts) => {
            let mut parts = vec![];
            for t in ts {
                parts.push(literal_text(rng, p, t, depth + 1)?);
            }
            format!("({})", parts.join(", "))
        }
        Type::Struct(name) => {
            let def = p.struct_defs.get(name)?;
            let mut parts = vec![];
            for (f, t) in &def.fields {
                parts.push(format!("{f}: {}", literal_text(rng, p, t, depth + 1)?));
            }
            format!("{name} {{{}}}", parts.join(", "))
        }
        Type::Enum(name) => {
            let def = p.enum_defs.get(name)?;
            if def.variants.is_empty() {
                return None;
            }
            match rng.pick(&def.variants) {
                Variant::Unit(v) => format!("{name}::{v}"),
                Variant::Tuple(v, ts) => {
                    let mut parts = vec![];
                    for t in ts {
                        parts.push(literal_text(rng, p, t, depth + 1)?);
                    }
                    format!("{name}::{v}({})", parts.join(", "))
                }
            }
        }
        _ => return None,
    })
}

// =============================================================================================

/// Base programs with their measured behaviour on the unchanged front end.
struct Base {
    origin: String,
    src: String,
    toks: Vec<(usize, usize)>,
    /// compile the mutants of this program too (its own compilation is fast)
    compile: bool,
    /// the base itself passes `check`
    checks: bool,
}

pub fn run(ctx: &Ctx) -> i32 {
    let thorough = ctx.tier == Tier::Thorough;
    let deadline_s: u64 = 10;
    let corpus = corpus::load();

    // ---- phase 0: behaviour of the base programs themselves (sets the compile flag of mutants)
    let base_info: Vec<Vec<(usize, bool, bool, St)>> = par(WORKERS, |w| {
        let mut mgr = Manager::new(deadline_s);
        let mut out = vec![];
        for (i, (origin, src)) in corpus.iter().enumerate() {
            if i % WORKERS != w {
                continue;
            }
            let inp = Input { class: "corpus program as is", origin: origin.clone(), kind: 'P', compile: true, text: src.clone() };
            let t0 = Instant::now();
            let r = mgr.run(std::slice::from_ref(&inp));
            let wall_us = t0.elapsed().as_micros() as u64;
            let (us, o) = &r[0];
            let mut st = St::default();
            st.record(&inp, *us, o);
            let fast = wall_us < 30_000 && !matches!(o, Out::Timeout(_) | Out::Died(..));
            let checks = matches!(o, Out::Ok(_)) || matches!(o, Out::Errors(s, _) if s == "compile");
            st.respawns = 0;
            out.push((i, fast, checks, st));
        }
        out
    });
    let mut total = St::default();
    {
        // listed known findings: replay their witnesses first
        let mut mgr = Manager::new(deadline_s);
        for e in ctx.known.of_kind("signature") {
            for w in e["key"]["witnesses"].as_array().cloned().unwrap_or_default() {
                if let Some(text) = w.as_str() {
                    let inp = Input { class: "known-finding witness", origin: e["id"].as_str().unwrap_or("").to_string(), kind: 'P', compile: true, text: text.to_string() };
                    let r = mgr.run(std::slice::from_ref(&inp));
                    total.record(&inp, r[0].0, &r[0].1);
                }
            }
        }
    }
    let mut flags: BTreeMap<usize, (bool, bool)> = BTreeMap::new();
    for v in base_info {
        for (i, fast, checks, st) in v {
            flags.insert(i, (fast, checks));
            total.merge(st);
        }
    }
    let bases: Vec<Base> = corpus
        .iter()
        .enumerate()
        .map(|(i, (origin, src))| {
            let (fast, checks) = flags.get(&i).copied().unwrap_or((false, false));
            Base { origin: origin.clone(), src: src.clone(), toks: lex(src), compile: fast, checks }
        })
        .collect();
    let n_tokens_corpus: usize = bases.iter().map(|b| b.toks.len()).sum();

    // ---- main phases
    let grid = super::c07_grid::programs();
    let grid_classes: BTreeSet<&'static str> = grid.iter().map(|(c, _)| *c).collect();
    let results: Vec<St> = par(WORKERS, |w| {
        let mut rng = Rng::derive(ctx.seed, 0x0700 + w as u64);
        // thorough tier: every second worker runs the plain release build (no overflow checks, no
        // debug assertions) if it was built; release vs. checked builds flip verdicts
        let plain = thorough && w % 2 == 1 && worker_exe(true) != worker_exe(false);
        let mut f = Feeder { mgr: Manager::with_profile(deadline_s, plain), st: St::default(), buf: vec![], ctx };
        f.st.by_profile.add(if plain { "plain release worker" } else { "checked-optimised worker" }, 1);
        let mut k: usize = 0; // global position counter for partitioning
        let mine = |k: &mut usize| {
            *k += 1;
            (*k - 1) % WORKERS == w
        };

        // -- G: the slot grid (every kind of value / type / pattern / const expression in every kind
        //       of slot): enumerated, tiny programs, runs first
        let mut g_complete = true;
        for (class, text) in grid.iter() {
            if ctx.past(0.25) {
                g_complete = false;
                break;
            }
            if mine(&mut k) {
                f.prog(class, "slot grid", text.clone(), true);
            }
        }
        for class in grid_classes.iter() {
            f.st.exhaustive_classes.insert(class, g_complete);
        }

        // -- A: prefixes (every character prefix, every token prefix) and single-token
        //       deletion / duplication / adjacent swap at every position: enumerated
        let mut a_complete = true;
        'a: for b in &bases {
            if ctx.past(0.40) {
                a_complete = false;
                break 'a;
            }
            if b.src.len() <= 6000 {
                for cut in char_boundaries(&b.src) {
                    if mine(&mut k) {
                        f.prog("character prefix", &b.origin, b.src[..cut].to_string(), b.compile);
                    }
                }
            }
            for (ti, (s, e)) in b.toks.iter().enumerate() {
                if !mine(&mut k) {
                    continue;
                }
                f.prog("token prefix", &b.origin, b.src[..*e].to_string(), b.compile);
                f.prog("token deletion", &b.origin, splice(&b.src, *s, *e, ""), b.compile);
                f.prog("token duplication", &b.origin, splice(&b.src, *e, *e, &format!(" {}", &b.src[*s..*e])), b.compile);
                if let Some((s2, e2)) = b.toks.get(ti + 1) {
                    let swapped = format!("{}{}{}{}{}", &b.src[..*s], &b.src[*s2..*e2], &b.src[*e..*s2], &b.src[*s..*e], &b.src[*e2..]);
                    f.prog("adjacent token swap", &b.origin, swapped, b.compile);
                }
                // token suffix (program starts in the middle)
                if ti % 3 == 0 {
                    f.prog("token suffix", &b.origin, b.src[*s..].to_string(), b.compile);
                }
            }
        }
        // every declared name (identifier followed by ':' or by '(' after fn / before a payload) replaced
        // by every other declared name of the same program: duplicate fields, parameters, variants
        'd: for b in &bases {
            if ctx.past(0.41) {
                a_complete = false;
                break 'd;
            }
            let decls: Vec<usize> = (0..b.toks.len().saturating_sub(1))
                .filter(|i| {
                    let t = &b.src[b.toks[*i].0..b.toks[*i].1];
                    let next = &b.src[b.toks[*i + 1].0..b.toks[*i + 1].1];
                    t.bytes().all(|c| c.is_ascii_alphanumeric() || c == b'_') && !t.as_bytes()[0].is_ascii_digit() && (next == ":" || next == "(" || next == "," || next == "}")
                })
                .collect();
            if decls.len() > 60 {
                continue;
            }
            for i in &decls {
                for j in &decls {
                    let (ti, tj) = (&b.src[b.toks[*i].0..b.toks[*i].1], &b.src[b.toks[*j].0..b.toks[*j].1]);
                    if ti != tj && mine(&mut k) {
                        f.prog("declared name replaced by another declared name", &b.origin, splice(&b.src, b.toks[*i].0, b.toks[*i].1, tj), b.compile);
                    }
                }
            }
        }
        // the content of every bracket pair deleted (`{}`, `()`, `[]` left behind), and every bracket
        // pair deleted with its content: arm-less matches, empty bodies, empty parameter lists, ...
        'g: for b in &bases {
            if ctx.past(0.415) {
                a_complete = false;
                break 'g;
            }
            let mut stack: Vec<usize> = vec![];
            for (ti, (ts, te)) in b.toks.iter().enumerate() {
                match &b.src[*ts..*te] {
                    "{" | "(" | "[" => stack.push(ti),
                    "}" | ")" | "]" => {
                        if let Some(open) = stack.pop() {
                            if ti > open + 1 && mine(&mut k) {
                                let (os, oe) = b.toks[open];
                                f.prog("bracket content deleted", &b.origin, splice(&b.src, oe, *ts, " "), b.compile);
                                f.prog("bracket group deleted", &b.origin, splice(&b.src, os, *te, " "), b.compile);
                            }
                        }
                    }
                    _ => {}
                }
            }
        }
        // line-level edits: deletion, duplication, adjacent swap of every line
        'l: for b in &bases {
            if ctx.past(0.42) {
                a_complete = false;
                break 'l;
            }
            let lines: Vec<&str> = b.src.split_inclusive('\n').collect();
            if lines.len() < 2 || lines.len() > 400 {
                continue;
            }
            for i in 0..lines.len() {
                if !mine(&mut k) {
                    continue;
                }
                let mut del = lines.clone();
                del.remove(i);
                f.prog("line deletion", &b.origin, del.concat(), b.compile);
                let mut dup = lines.clone();
                dup.insert(i, lines[i]);
                f.prog("line duplication", &b.origin, dup.concat(), b.compile);
                if i + 1 < lines.len() {
                    let mut sw = lines.clone();
                    sw.swap(i, i + 1);
                    f.prog("adjacent line swap", &b.origin, sw.concat(), b.compile);
                }
            }
        }
        f.flush();
        for c in ["character prefix", "token prefix", "token deletion", "token duplication", "adjacent token swap", "declared name replaced by another declared name", "bracket content deleted", "bracket group deleted", "line deletion", "line duplication", "adjacent line swap"] {
            f.st.exhaustive_classes.insert(c, a_complete);
        }

        // -- B: substitution of a token by each token of the alphabet
        //       thorough: every position of every corpus program of <= 400 tokens; quick: sampled
        let mut b_complete = thorough;
        if thorough {
            'b: for b in &bases {
                if b.toks.len() > 400 {
                    continue;
                }
                for (s, e) in b.toks.iter() {
                    if ctx.past(0.72) {
                        b_complete = false;
                        break 'b;
                    }
                    if !mine(&mut k) {
                        continue;
                    }
                    for a in ALPHABET {
                        f.prog("token substitution", &b.origin, splice(&b.src, *s, *e, a), b.compile);
                    }
                    // ... and by every other distinct word (identifier, number) of the same program
                    let mut words: Vec<&str> = b.toks.iter().map(|(s, e)| &b.src[*s..*e]).filter(|w| w.bytes().all(|c| c.is_ascii_alphanumeric() || c == b'_')).collect();
                    words.sort();
                    words.dedup();
                    for w in words.iter().take(60) {
                        if *w != &b.src[*s..*e] {
                            f.prog("token substitution by a word of the program", &b.origin, splice(&b.src, *s, *e, w), b.compile);
                        }
                    }
                }
            }
        } else {
            while !ctx.past(0.62) {
                let b = rng.pick(&bases);
                if b.toks.is_empty() {
                    continue;
                }
                let (s, e) = *rng.pick(&b.toks);
                let a = rng.pick(ALPHABET);
                f.prog("token substitution", &b.origin, splice(&b.src, s, e, a), b.compile);
                // by another token of the same program (the wrong identifier / number / operator)
                for _ in 0..2 {
                    let (s2, e2) = *rng.pick(&b.toks);
                    if b.src[s2..e2] != b.src[s..e] {
                        f.prog("token substitution by a token of the program", &b.origin, splice(&b.src, s, e, &b.src[s2..e2]), b.compile);
                    }
                }
                // a short range of tokens deleted
                if rng.chance(1, 3) {
                    let i = rng.usize_below(b.toks.len());
                    let j = (i + 1 + rng.usize_below(8)).min(b.toks.len() - 1);
                    f.prog("token range deletion", &b.origin, splice(&b.src, b.toks[i].0, b.toks[j].1, " "), b.compile);
                }
                // insertion as well
                if rng.chance(1, 3) {
                    let a = rng.pick(ALPHABET);
                    f.prog("token insertion", &b.origin, splice(&b.src, s, s, &format!("{a} ")), b.compile);
                }
                // two edits
                if rng.chance(1, 4) {
                    let m = splice(&b.src, s, e, a);
                    let t2 = lex(&m);
                    if !t2.is_empty() {
                        let (s2, e2) = *rng.pick(&t2);
                        f.prog("two token edits", &b.origin, splice(&m, s2, e2, *rng.pick(ALPHABET)), b.compile);
                    }
                }
            }
        }
        f.flush();
        f.st.exhaustive_classes.insert("token substitution", b_complete);

        // -- C: generated programs (E1) and their mutants: token edits and rule-breaking edits
        let c_end = if thorough { 0.84 } else { 0.76 };
        while !ctx.past(c_end) {
            let profile = *rng.pick(&[Profile::Mixed, Profile::MutationHeavy, Profile::MatchFocused, Profile::PanicHeavy]);
            let mut cfg = GenCfg::new(profile);
            cfg.max_depth = 2 + rng.below(2) as u32;
            cfg.max_stmts = 2 + rng.usize_below(5);
            cfg.max_nodes = 30 + rng.usize_below(90);
            cfg.max_fns = rng.usize_below(3);
            cfg.max_cost = 600;
            cfg.return_all_vars = false;
            let (prog, pr, _) = exec::generate(&mut rng, cfg, Layout::Compact);
            f.prog("generated program as is", "E1", pr.src.clone(), true);
            let n = pr.toks.len();
            for _ in 0..12 {
                let i = rng.usize_below(n);
                let mut t = pr.toks.clone();
                let class = match rng.below(6) {
                    5 => {
                        // a declared name (identifier followed by ':') replaced by another declared name
                        let decls: Vec<usize> = (0..n.saturating_sub(1)).filter(|k| t[*k + 1] == ":" && t[*k].chars().next().map(|c| c.is_ascii_alphabetic() || c == '_').unwrap_or(false)).collect();
                        if decls.len() >= 2 {
                            let a = *rng.pick(&decls);
                            let b = *rng.pick(&decls);
                            t[a] = t[b].clone();
                        }
                        "generated: declared name replaced by another declared name"
                    }
                    0 => {
                        t.truncate(i);
                        "generated: token prefix"
                    }
                    1 => {
                        t.remove(i);
                        "generated: token deletion"
                    }
                    2 => {
                        let x = t[i].clone();
                        t.insert(i, x);
                        "generated: token duplication"
                    }
                    3 => {
                        if i + 1 < n {
                            t.swap(i, i + 1);
                        }
                        "generated: adjacent token swap"
                    }
                    _ => {
                        t[i] = rng.pick(ALPHABET).to_string();
                        "generated: token substitution"
                    }
                };
                let layout = if rng.chance(1, 4) { Layout::TokenPerLine } else { Layout::Compact };
                f.prog(class, "E1", print::render(&t, layout), true);
            }
            // ill-typed mutants (the C17 edits): the type checker must reject without crashing
            for _ in 0..4 {
                let rule = *rng.pick(&AST_RULES);
                let (_, sites) = mutate::apply(&prog, rule, usize::MAX, &mut rng);
                if sites == 0 {
                    continue;
                }
                let t = rng.usize_below(sites);
                if let (Some(m), _) = mutate::apply(&prog, rule, t, &mut rng) {
                    let toks = print::print_program_suffixed(&m, rng.next_u64());
                    f.prog("generated: rule-breaking edit", "E1", print::render(&toks, Layout::Compact), true);
                }
            }
        }
        f.flush();

        // -- D: token soup, random text, comments, towers
        let d_end = if thorough { 0.93 } else { 0.90 };
        // towers first (enumerated over depths)
        // (the parser limits nesting to 128 levels; depths around the limit and far beyond it)
        let depths: &[usize] = if thorough { &[1, 2, 3, 5, 8, 16, 32, 64, 100, 126, 127, 128, 129, 200, 256, 512, 1024, 2048, 4096] } else { &[1, 2, 3, 8, 32, 64, 127, 128, 129, 256, 1024, 4096] };
        for d in depths {
            for (name, text) in towers(*d) {
                if mine(&mut k) {
                    let _ = name;
                    f.prog("nesting tower / repetition", &format!("{name} depth {d}"), text, true);
                }
            }
        }
        while !ctx.past(d_end) {
            match rng.below(8) {
                0 | 1 => f.prog("token soup", "random", soup(&mut rng, ALPHABET, 200), true),
                2 | 3 | 4 => f.prog("guided token soup", "random", guided_soup(&mut rng), true),
                5 => {
                    let kind = rng.below(4);
                    f.prog("random text", "random", random_text(&mut rng, kind), true)
                }
                6 => {
                    // comment / line-end edits of a corpus program at a token boundary
                    let b = rng.pick(&bases);
                    if b.toks.is_empty() || b.src.len() > 4000 {
                        continue;
                    }
                    let (s, _) = *rng.pick(&b.toks);
                    let ins = *rng.pick(&["/*", "*/", "//", "/* /*", "/* */ */", "/*/", "/**", "\r\n", "\u{e9}", "/* \u{1F600}", "//\r"]);
                    f.prog("comment / line-end insertion", &b.origin, splice(&b.src, s, s, &format!("{ins} ")), b.compile);
                }
                _ => {
                    // a random slice of a corpus program (starts and ends anywhere)
                    let b = rng.pick(&bases);
                    if b.toks.len() < 2 {
                        continue;
                    }
                    let i = rng.usize_below(b.toks.len());
                    let j = i + rng.usize_below(b.toks.len() - i);
                    f.prog("token slice", &b.origin, b.src[b.toks[i].0..b.toks[j].1].to_string(), b.compile);
                }
            }
        }
        f.flush();

        // -- E: literal strings given to the argument parser
        let checked: Vec<&Base> = bases.iter().filter(|b| b.checks && b.src.len() < 6000).collect();
        let mut typed_cache: BTreeMap<usize, Option<TypedProgram>> = BTreeMap::new();
        while !ctx.out_of_time() && !checked.is_empty() {
            let bi = rng.usize_below(checked.len());
            let b = checked[bi];
            let typed = typed_cache.entry(bi).or_insert_with(|| catch(|| garble_lang::check(&b.src)).ok().and_then(|r| r.ok()));
            let Some(typed) = typed.as_ref() else { continue };
            let mut fns: Vec<&String> = typed.fn_defs.iter().filter(|(_, d)| d.is_pub && !d.params.is_empty()).map(|(n, _)| n).collect();
            fns.sort();
            if fns.is_empty() {
                continue;
            }
            let fname = (*rng.pick(&fns)).clone();
            let def = &typed.fn_defs[&fname];
            let pi = rng.usize_below(def.params.len());
            let ty = def.params[pi].ty.clone();
            let frame = |lit: &str| format!("{}\u{0}{}\u{0}{}\u{0}{}", b.src, fname, pi, lit);
            let Some(valid) = literal_text(&mut rng, typed, &ty, 0) else {
                // const-sized arrays etc.: still feed soup
                let s = soup(&mut rng, LIT_ALPHABET, 12);
                f.push(Input { class: "literal: token soup", origin: b.origin.clone(), kind: 'L', compile: false, text: frame(&s) });
                // const-sized parameter types: repeat forms whose count is a word of the program
                for _ in 0..4 {
                    let (ws, we) = *rng.pick(&b.toks);
                    let w = &b.src[ws..we];
                    if w.bytes().all(|c| c.is_ascii_alphanumeric() || c == b'_') {
                        let elem = *rng.pick(&["true", "0", "1u8", "(0, 0)", "[0; 2]"]);
                        f.push(Input { class: "literal: repeat count / shorthand field naming a word of the program", origin: b.origin.clone(), kind: 'L', compile: false, text: frame(&format!("[{elem}; {w}]")) });
                    }
                }
                continue;
            };
            f.push(Input { class: "literal: valid text", origin: b.origin.clone(), kind: 'L', compile: false, text: frame(&valid) });
            let toks = lex(&valid);
            // every character prefix
            for cut in char_boundaries(&valid) {
                f.push(Input { class: "literal: character prefix", origin: b.origin.clone(), kind: 'L', compile: false, text: frame(&valid[..cut]) });
            }
            for (ti, (s, e)) in toks.iter().enumerate() {
                f.push(Input { class: "literal: token deletion", origin: b.origin.clone(), kind: 'L', compile: false, text: frame(&splice(&valid, *s, *e, "")) });
                f.push(Input { class: "literal: token duplication", origin: b.origin.clone(), kind: 'L', compile: false, text: frame(&splice(&valid, *e, *e, &format!(" {}", &valid[*s..*e]))) });
                if let Some((s2, e2)) = toks.get(ti + 1) {
                    let sw = format!("{}{}{}{}{}", &valid[..*s], &valid[*s2..*e2], &valid[*e..*s2], &valid[*s..*e], &valid[*e2..]);
                    f.push(Input { class: "literal: adjacent token swap", origin: b.origin.clone(), kind: 'L', compile: false, text: frame(&sw) });
                }
                let a = rng.pick(LIT_ALPHABET);
                f.push(Input { class: "literal: token substitution", origin: b.origin.clone(), kind: 'L', compile: false, text: frame(&splice(&valid, *s, *e, a)) });
                // by a word of the program (names of consts, types, fields, functions, variables)
                if !b.toks.is_empty() {
                    let (ws, we) = *rng.pick(&b.toks);
                    let w = &b.src[ws..we];
                    if w.bytes().all(|c| c.is_ascii_alphanumeric() || c == b'_') {
                        f.push(Input { class: "literal: token substitution by a word of the program", origin: b.origin.clone(), kind: 'L', compile: false, text: frame(&splice(&valid, *s, *e, w)) });
                    }
                }
            }
            // repeat / struct-shorthand forms naming a word of the program: `[lit; WORD]`, `Name { WORD }`
            if !b.toks.is_empty() {
                let (ws, we) = *rng.pick(&b.toks);
                let w = &b.src[ws..we];
                if w.bytes().all(|c| c.is_ascii_alphanumeric() || c == b'_') {
                    f.push(Input { class: "literal: repeat count / shorthand field naming a word of the program", origin: b.origin.clone(), kind: 'L', compile: false, text: frame(&format!("[{valid}; {w}]")) });
                    f.push(Input { class: "literal: repeat count / shorthand field naming a word of the program", origin: b.origin.clone(), kind: 'L', compile: false, text: frame(&format!("[true; {w}]")) });
                    let (ws2, we2) = *rng.pick(&b.toks);
                    let w2 = &b.src[ws2..we2];
                    if w2.bytes().all(|c| c.is_ascii_alphanumeric() || c == b'_') {
                        f.push(Input { class: "literal: repeat count / shorthand field naming a word of the program", origin: b.origin.clone(), kind: 'L', compile: false, text: frame(&format!("{w} {{ {w2} }}")) });
                    }
                }
            }
            let s = soup(&mut rng, LIT_ALPHABET, 12);
            f.push(Input { class: "literal: token soup", origin: b.origin.clone(), kind: 'L', compile: false, text: frame(&s) });
            let kind = rng.below(4);
            let rt: String = random_text(&mut rng, kind).chars().take(40).collect();
            f.push(Input { class: "literal: random text", origin: b.origin.clone(), kind: 'L', compile: false, text: frame(&rt) });
            // a program fed as a literal, a literal tower
            if rng.chance(1, 20) {
                let dmax = if rng.bool() { 256 } else { 4096 };
                let d = 1 + rng.usize_below(dmax);
                f.push(Input { class: "literal: nesting tower", origin: b.origin.clone(), kind: 'L', compile: false, text: frame(&format!("{}1{}", "(".repeat(d), ")".repeat(d))) });
                f.push(Input { class: "literal: nesting tower", origin: b.origin.clone(), kind: 'L', compile: false, text: frame(&"[".repeat(d)) });
            }
        }
        f.flush();

        // -- confirmation of hang candidates: alone, fresh process, 60 s
        let cands = std::mem::take(&mut f.st.hang_candidates);
        let mut seen_stage: BTreeMap<String, u32> = BTreeMap::new();
        for (ci, c) in cands.into_iter().enumerate() {
            if ci >= 3 {
                f.st.inconclusive.inc("hang candidate not re-run alone (more than 3 in this worker)");
                continue;
            }
            let mut m = Manager::with_profile(60, plain);
            let r = m.run(std::slice::from_ref(&c));
            match &r[0].1 {
                Out::Timeout(stage) => {
                    let n = seen_stage.entry(stage.clone()).or_insert(0);
                    *n += 1;
                    f.st.finding(format!("hang:{stage}"), &c, format!("no answer within 60 s when run alone in a fresh process; stuck in stage {stage}"));
                }
                Out::Died(stage, how) => f.st.finding(format!("died:{stage}:{how}"), &c, format!("worker process died in stage {stage}: {how}")),
                _ => {
                    let us = r[0].0;
                    if us > 10_000_000 {
                        f.st.finding("slow:front-end-needs-more-than-10s".into(), &c, format!("needed {us} us when run alone"));
                    } else {
                        f.st.inconclusive.inc("ran into the 10 s deadline under load, finished promptly when re-run alone");
                    }
                }
            }
        }
        f.st.respawns += f.mgr.respawns;
        f.st
    });
    for st in results {
        total.merge(st);
    }
    let _ = std::fs::remove_dir_all(work_dir());

    // ---- verdicts
    let mut finding_list = vec![];
    for (sig, fd) in &total.findings {
        let Some(w) = &fd.witness else { continue };
        finding_list.push(json!({"signature": sig, "inputs": fd.count, "shortest_witness": w.shown(), "detail": fd.detail}));
        // known findings are keyed on the exact failing call site / failure signature
        let known = ctx.known.of_kind("signature").find(|e| e["key"]["signature"].as_str() == Some(sig.as_str())).and_then(|e| e["id"].as_str().map(|s| s.to_string()));
        if let Some(id) = known {
            ctx.known_finding(&id);
            continue;
        }
        ctx.violation(
            &format!("front end not total: {sig} ({} inputs; shortest shown): {}", fd.count, fd.detail.chars().take(200).collect::<String>()),
            json!({"signature": sig, "inputs_with_this_signature": fd.count, "witness": w.shown(), "detail": fd.detail}),
        );
    }
    for (why, n) in &total.inconclusive.0 {
        // resource exhaustion in the compile stage is expected for a few mutants (enormous circuits)
        // and is reported in the evidence; a harness problem makes the run inconclusive
        if why.starts_with("harness") {
            ctx.inconclusive(&format!("{why} ({n}x)"));
        }
    }

    let mut cov = Map::new();
    cov.insert("evaluations".into(), json!(total.n));
    cov.insert("distinct_nontrivial".into(), json!(total.distinct.len()));
    cov.insert(
        "rule".into(),
        json!("a case is one input string (program text or literal text for a parameter type) pushed through scan / parse / type check / compile (or Literal::parse) of the real front end in an isolated worker process with a 10 s per-input deadline; distinct = distinct input strings by content hash; every one is non-trivial in the sense that it is a different string the front end has to classify"),
    );
    cov.insert("inputs_by_class".into(), total.by_class.to_json());
    cov.insert("inputs_by_outcome".into(), total.by_outcome.to_json());
    cov.insert("inputs_by_class_and_outcome".into(), total.by_class_outcome.to_json());
    cov.insert("corpus_programs".into(), json!(bases.len()));
    cov.insert("corpus_tokens".into(), json!(n_tokens_corpus));
    cov.insert("alphabet_size".into(), json!(ALPHABET.len()));
    cov.insert("enumerated_completely".into(), json!(total.exhaustive_classes.iter().map(|(k, v)| (k.to_string(), json!(v))).collect::<Map<String, Value>>()));
    cov.insert("exhaustive".into(), json!(false));
    cov.insert("slowest_front_end_input".into(), total.slowest.clone().unwrap_or(Value::Null));
    cov.insert("front_end_cpu_s".into(), json!((total.front_us_total as f64 / 1e6 * 100.0).round() / 100.0));
    cov.insert("worker_restarts".into(), json!(total.respawns));
    cov.insert("workers_by_build_profile".into(), total.by_profile.to_json());
    cov.insert("not_judged".into(), total.inconclusive.to_json());
    cov.insert("failure_signatures".into(), json!(finding_list));
    cov.insert("samples".into(), json!(total.samples.values().cloned().collect::<Vec<Value>>()));
    ctx.finish(
        cov,
        vec![
            "termination is decided as bounded progress: a 10 s deadline per input, re-run alone with 60 s before a hang in scan/parse/check is reported".into(),
            "time-outs and allocation failures in the compile stage are not judged (a mutant may describe an enormous circuit)".into(),
            "worker front-end thread has the default main-thread stack of 8 MiB; nesting towers / repetitions up to depth 4096 (48 shapes)".into(),
        ],
        20_000,
    )
}
