//! C09 — literal encoding round-trips, matches the circuit bit layout, is validated.

use crate::bits;
use crate::gl::{self, CompileOutcome};
use crate::ints::{self, IntTy};
use crate::model::ty::{self, Defs, EnumDef, StructDef, Ty, Val};
use crate::rng::Rng;
use crate::util::{catch, par, Counts, Ctx, WORKERS};
use garble_lang::literal::{Literal, VariantLiteral};
use garble_lang::token::{SignedNumType, UnsignedNumType};
use garble_lang::GarbleProgram;
use serde_json::{json, Map, Value};
use std::collections::HashSet;

fn utag(t: IntTy) -> UnsignedNumType {
    if t.is_usize {
        UnsignedNumType::Usize
    } else {
        match t.bits {
            8 => UnsignedNumType::U8,
            16 => UnsignedNumType::U16,
            32 => UnsignedNumType::U32,
            _ => UnsignedNumType::U64,
        }
    }
}

fn stag(t: IntTy) -> SignedNumType {
    match t.bits {
        8 => SignedNumType::I8,
        16 => SignedNumType::I16,
        32 => SignedNumType::I32,
        _ => SignedNumType::I64,
    }
}

/// canonical programmatic literal of a value
/// Variant names ending in `()` stand for tuple variants without fields (`enum E { Flush() }`, value
/// `E::Flush()`), which Garble distinguishes from unit variants.
fn vclean(n: &str) -> &str {
    n.trim_end_matches("()")
}

fn is_empty_tuple_variant(n: &str) -> bool {
    n.ends_with("()")
}

fn to_literal(v: &Val, t: &Ty, d: &Defs) -> Literal {
    match (v, t) {
        (Val::Bool(true), _) => Literal::True,
        (Val::Bool(false), _) => Literal::False,
        (Val::Int(x), Ty::Int(it)) if it.signed => Literal::NumSigned(*x as i64, stag(*it)),
        (Val::Int(x), Ty::Int(it)) => Literal::NumUnsigned(*x as u64, utag(*it)),
        (Val::Array(es), Ty::Array(et, _)) => Literal::Array(es.iter().map(|e| to_literal(e, et, d)).collect()),
        (Val::Tuple(fs), Ty::Tuple(ts)) => Literal::Tuple(fs.iter().zip(ts).map(|(f, t)| to_literal(f, t, d)).collect()),
        (Val::Struct(fs), Ty::Struct(si)) => {
            let sd = &d.structs[*si];
            // canonical order = name order (as the parser produces it)
            Literal::Struct(sd.name.clone(), sd.layout_order().into_iter().map(|k| (sd.fields[k].0.clone(), to_literal(&fs[k], &sd.fields[k].1, d))).collect())
        }
        (Val::Enum(vi, payload), Ty::Enum(ei)) => {
            let ed = &d.enums[*ei];
            let (vn, pts) = &ed.variants[*vi];
            Literal::Enum(
                ed.name.clone(),
                vclean(vn).to_string(),
                if pts.is_empty() && !is_empty_tuple_variant(vn) { VariantLiteral::Unit } else { VariantLiteral::Tuple(payload.iter().zip(pts).map(|(p, t)| to_literal(p, t, d)).collect()) },
            )
        }
        _ => panic!("harness: value/type mismatch"),
    }
}

/// Denotation of a programmatic literal at a type: the value it stands for, or None if it stands
/// for nothing (and must be refused).
fn den(l: &Literal, t: &Ty, d: &Defs) -> Option<Val> {
    Some(match (l, t) {
        (Literal::True, Ty::Bool) => Val::Bool(true),
        (Literal::False, Ty::Bool) => Val::Bool(false),
        (Literal::NumUnsigned(n, tag), Ty::Int(it)) if !it.signed && *tag == utag(*it) && (*n as i128) <= it.max_val() => Val::Int(*n as i128),
        (Literal::NumSigned(n, tag), Ty::Int(it)) if it.signed && *tag == stag(*it) && it.fits(*n as i128) => Val::Int(*n as i128),
        (Literal::Array(es), Ty::Array(et, n)) if es.len() == *n => Val::Array(es.iter().map(|e| den(e, et, d)).collect::<Option<Vec<_>>>()?),
        (Literal::ArrayRepeat(e, k), Ty::Array(et, n)) if k == n => Val::Array(vec![den(e, et, d)?; *n]),
        (Literal::Range(lo, hi, tag), Ty::Array(et, n)) => {
            let Ty::Int(it) = &**et else { return None };
            // (as in the language, a range is never empty)
            if it.signed || *tag != utag(*it) || lo >= hi || hi - lo != *n as u64 {
                return None;
            }
            if (*hi - 1) as i128 > it.max_val() {
                return None;
            }
            Val::Array((*lo..*hi).map(|v| Val::Int(v as i128)).collect())
        }
        (Literal::Tuple(fs), Ty::Tuple(ts)) if fs.len() == ts.len() => Val::Tuple(fs.iter().zip(ts).map(|(f, t)| den(f, t, d)).collect::<Option<Vec<_>>>()?),
        (Literal::Struct(name, fs), Ty::Struct(si)) => {
            let sd = &d.structs[*si];
            if *name != sd.name || fs.len() != sd.fields.len() {
                return None;
            }
            let mut vals: Vec<Option<Val>> = vec![None; sd.fields.len()];
            for (fname, fl) in fs {
                let k = sd.field_index(fname)?;
                if vals[k].is_some() {
                    return None; // duplicated field
                }
                vals[k] = Some(den(fl, &sd.fields[k].1, d)?);
            }
            Val::Struct(vals.into_iter().collect::<Option<Vec<_>>>()?)
        }
        (Literal::Enum(name, vn, payload), Ty::Enum(ei)) => {
            let ed = &d.enums[*ei];
            if *name != ed.name {
                return None;
            }
            let vi = ed.variants.iter().position(|(n, _)| vclean(n) == vn)?;
            let pts = &ed.variants[vi].1;
            let empty_tuple = is_empty_tuple_variant(&ed.variants[vi].0);
            match payload {
                VariantLiteral::Unit if pts.is_empty() && !empty_tuple => Val::Enum(vi, vec![]),
                VariantLiteral::Tuple(fs) if (!pts.is_empty() || empty_tuple) && fs.len() == pts.len() => Val::Enum(vi, fs.iter().zip(pts).map(|(f, t)| den(f, t, d)).collect::<Option<Vec<_>>>()?),
                _ => return None,
            }
        }
        _ => return None,
    })
}

// ---------------------------------------------------------------------------------------------
// generation of types

struct G<'a> {
    rng: &'a mut Rng,
    d: Defs,
}

impl G<'_> {
    fn prim(&mut self) -> Ty {
        let all = [ints::U8, ints::U16, ints::U32, ints::U64, ints::USIZE, ints::I8, ints::I16, ints::I32, ints::I64];
        if self.rng.chance(1, 7) {
            Ty::Bool
        } else {
            Ty::Int(*self.rng.pick(&all))
        }
    }
    fn gen_ty(&mut self, depth: u32) -> Ty {
        if depth == 0 {
            return self.prim();
        }
        match self.rng.weighted(&[4, 3, 3, 3, 3]) {
            0 => self.prim(),
            1 => Ty::Array(Box::new(self.gen_ty(depth - 1)), if self.rng.chance(1, 8) { 0 } else { 1 + self.rng.usize_below(4) }),
            2 => {
                let n = 2 + self.rng.usize_below(3);
                Ty::Tuple((0..n).map(|_| self.gen_ty(depth - 1)).collect())
            }
            3 => {
                let nf = 1 + self.rng.usize_below(4);
                let mut names = vec!["zeta", "alpha", "mid", "beta", "omega", "b", "a"];
                self.rng.shuffle(&mut names);
                let fields = (0..nf).map(|i| (names[i].to_string(), self.gen_ty(depth - 1))).collect();
                let name = format!("S{}", self.d.structs.len());
                self.d.structs.push(StructDef { name, fields });
                Ty::Struct(self.d.structs.len() - 1)
            }
            _ => {
                let nv = 2 + self.rng.usize_below(5);
                let variants: Vec<(String, Vec<Ty>)> = (0..nv)
                    .map(|i| {
                        let np = self.rng.weighted(&[3, 4, 2, 1]);
                        let payload: Vec<Ty> = (0..np).map(|_| self.gen_ty(depth - 1)).collect();
                        // (the first payload type may be a tuple or an array: parser repaired, FX-C05-7)
                        // a variant without fields is sometimes declared as an empty tuple variant `V()`
                        let name = if payload.is_empty() && self.rng.chance(1, 3) { format!("V{i}()") } else { format!("V{i}") };
                        (name, payload)
                    })
                    .collect();
                let name = format!("E{}", self.d.enums.len());
                self.d.enums.push(EnumDef { name, variants });
                Ty::Enum(self.d.enums.len() - 1)
            }
        }
    }
}

fn defs_text(d: &Defs) -> String {
    let mut s = String::new();
    for sd in &d.structs {
        s += &format!("struct {} {{ {} }}\n", sd.name, sd.fields.iter().map(|(n, t)| format!("{n}: {}", t.show(d))).collect::<Vec<_>>().join(", "));
    }
    for ed in &d.enums {
        s += &format!(
            "enum {} {{ {} }}\n",
            ed.name,
            ed.variants.iter().map(|(n, ts)| if ts.is_empty() { n.clone() } else { format!("{n}({})", ts.iter().map(|t| t.show(d)).collect::<Vec<_>>().join(", ")) }).collect::<Vec<_>>().join(", ")
        );
    }
    s
}

/// Alternative text spellings of a value: (text, denotes the value?)
fn spellings(rng: &mut Rng, v: &Val, t: &Ty, d: &Defs) -> String {
    match (v, t) {
        (Val::Bool(b), _) => b.to_string(),
        (Val::Int(x), Ty::Int(it)) => {
            if rng.bool() {
                it.lit(*x)
            } else {
                x.to_string()
            }
        }
        (Val::Array(es), Ty::Array(et, n)) => {
            // repeat form if all elements are equal, range form if consecutive unsigned
            if *n > 0 && es.iter().all(|e| e == &es[0]) && rng.chance(1, 2) {
                return format!("[{}; {}]", spellings(rng, &es[0], et, d), n);
            }
            let trailing = if rng.chance(1, 3) { "," } else { "" };
            format!("[{}{}]", es.iter().map(|e| spellings(rng, e, et, d)).collect::<Vec<_>>().join(", "), trailing)
        }
        (Val::Tuple(fs), Ty::Tuple(ts)) => {
            let trailing = if rng.chance(1, 3) { "," } else { "" };
            format!("({}{})", fs.iter().zip(ts).map(|(f, t)| spellings(rng, f, t, d)).collect::<Vec<_>>().join(", "), trailing)
        }
        (Val::Struct(fs), Ty::Struct(si)) => {
            let sd = &d.structs[*si];
            let mut order: Vec<usize> = (0..fs.len()).collect();
            rng.shuffle(&mut order);
            let trailing = if rng.chance(1, 3) { "," } else { "" };
            format!(
                "{} {{ {}{} }}",
                sd.name,
                order.iter().map(|k| format!("{}: {}", sd.fields[*k].0, spellings(rng, &fs[*k], &sd.fields[*k].1, d))).collect::<Vec<_>>().join(", "),
                trailing
            )
        }
        (Val::Enum(vi, payload), Ty::Enum(ei)) => {
            let ed = &d.enums[*ei];
            let (vn, pts) = &ed.variants[*vi];
            if pts.is_empty() {
                format!("{}::{}", ed.name, vn)
            } else {
                format!("{}::{}({})", ed.name, vn, payload.iter().zip(pts).map(|(p, t)| spellings(rng, p, t, d)).collect::<Vec<_>>().join(", "))
            }
        }
        _ => panic!("harness: value/type mismatch"),
    }
}

fn count_ints(v: &Val) -> usize {
    match v {
        Val::Int(_) => 1,
        Val::Bool(_) => 0,
        Val::Array(xs) | Val::Tuple(xs) | Val::Struct(xs) => xs.iter().map(count_ints).sum(),
        Val::Enum(_, p) => p.iter().map(count_ints).sum(),
    }
}

/// Canonical text of `v` in which the `target`-th integer leaf is replaced by `f(its type)`.
fn text_with_number(v: &Val, t: &Ty, d: &Defs, target: usize, seen: &mut usize, f: &mut dyn FnMut(crate::ints::IntTy) -> String) -> String {
    match (v, t) {
        (Val::Bool(b), _) => b.to_string(),
        (Val::Int(x), Ty::Int(it)) => {
            *seen += 1;
            if *seen - 1 == target {
                f(*it)
            } else {
                it.lit(*x)
            }
        }
        (Val::Array(es), Ty::Array(et, _)) => format!("[{}]", es.iter().map(|e| text_with_number(e, et, d, target, seen, f)).collect::<Vec<_>>().join(", ")),
        (Val::Tuple(fs), Ty::Tuple(ts)) => format!("({})", fs.iter().zip(ts).map(|(x, t)| text_with_number(x, t, d, target, seen, f)).collect::<Vec<_>>().join(", ")),
        (Val::Struct(fs), Ty::Struct(i)) => {
            let sd = &d.structs[*i];
            format!("{} {{ {} }}", sd.name, fs.iter().zip(&sd.fields).map(|(x, (n, t))| format!("{n}: {}", text_with_number(x, t, d, target, seen, f))).collect::<Vec<_>>().join(", "))
        }
        (Val::Enum(var, payload), Ty::Enum(i)) => {
            let ed = &d.enums[*i];
            let (vn, pts) = &ed.variants[*var];
            if pts.is_empty() {
                format!("{}::{}", ed.name, vn)
            } else {
                format!("{}::{}({})", ed.name, vn, payload.iter().zip(pts).map(|(p, t)| text_with_number(p, t, d, target, seen, f)).collect::<Vec<_>>().join(", "))
            }
        }
        _ => panic!("harness: value/type mismatch"),
    }
}

/// A number text that denotes no value of the integer type `it` (as decimal digits the scanner may or
/// may not accept; with the type's own suffix or without one).
fn out_of_range_number(rng: &mut Rng, it: crate::ints::IntTy) -> String {
    let mut cands: Vec<i128> = vec![it.max_val() + 1, it.min_val() - 1, it.max_val() + 2];
    for c in [1i128 << 31, 1i128 << 32, (1i128 << 63) - 1, 1i128 << 63, (1i128 << 63) + 1, (1i128 << 64) - 1, 1i128 << 64, -(1i128 << 63) - 1, -(1i128 << 31) - 1, -1, -129, 256, 65536] {
        if !it.fits(c) {
            cands.push(c);
        }
    }
    let n = *rng.pick(&cands);
    if rng.bool() {
        format!("{n}{}", it.name())
    } else {
        n.to_string()
    }
}

/// One random corruption / alternative form somewhere inside a canonical literal.
fn mutate_literal(rng: &mut Rng, l: &Literal, t: &Ty, d: &Defs) -> (Literal, &'static str) {
    // pick a node: with some probability descend
    match (l, t) {
        (Literal::Array(es), Ty::Array(et, 0)) if es.is_empty() && matches!(&**et, Ty::Int(it) if !it.signed) => {
            let Ty::Int(it) = &**et else { unreachable!() };
            let lo = rng.below(5);
            (Literal::Range(lo, lo, utag(*it)), "empty range literal for an array of size 0")
        }
        (Literal::Array(es), Ty::Array(et, n)) if !es.is_empty() => match rng.below(6) {
            0 => {
                let mut es = es.clone();
                es.pop();
                (Literal::Array(es), "array too short")
            }
            1 => {
                let mut es = es.clone();
                es.push(es[0].clone());
                (Literal::Array(es), "array too long")
            }
            2 => (Literal::ArrayRepeat(Box::new(es[0].clone()), *n), "array as repeat literal (right count)"),
            3 => (Literal::ArrayRepeat(Box::new(es[0].clone()), *n + 1 - 2 * rng.usize_below(2).min(*n)), "repeat literal with another count"),
            4 => {
                if let Ty::Int(it) = &**et {
                    if !it.signed {
                        let lo = rng.below(5);
                        let choice = rng.below(5);
                        let (a, b) = match choice {
                            0 => (lo, lo + *n as u64),
                            1 => (lo + *n as u64, lo),                                // inverted
                            2 => (lo, lo + *n as u64 + 1),                            // wrong length
                            3 => (it.max_val() as u64 - 1, (it.max_val() as u64 - 1).wrapping_add(*n as u64)), // elements overflow the type
                            _ => (lo, lo + *n as u64),
                        };
                        let tag = if choice == 4 { UnsignedNumType::Unspecified } else { utag(*it) };
                        return (Literal::Range(a, b, tag), "range literal (valid / inverted / wrong length / overflowing / untyped)");
                    }
                }
                let k = rng.usize_below(es.len());
                let (m, what) = mutate_literal(rng, &es[k], et, d);
                let mut es = es.clone();
                es[k] = m;
                (Literal::Array(es), what)
            }
            _ => {
                let k = rng.usize_below(es.len());
                let (m, what) = mutate_literal(rng, &es[k], et, d);
                let mut es = es.clone();
                es[k] = m;
                (Literal::Array(es), what)
            }
        },
        (Literal::Tuple(fs), Ty::Tuple(ts)) if !fs.is_empty() => match rng.below(5) {
            0 => {
                let mut fs = fs.clone();
                fs.pop();
                (Literal::Tuple(fs), "tuple arity -1")
            }
            1 => {
                let mut fs = fs.clone();
                fs.push(Literal::True);
                (Literal::Tuple(fs), "tuple arity +1")
            }
            _ => {
                let k = rng.usize_below(fs.len());
                let (m, what) = mutate_literal(rng, &fs[k], &ts[k], d);
                let mut fs = fs.clone();
                fs[k] = m;
                (Literal::Tuple(fs), what)
            }
        },
        (Literal::Struct(name, fs), Ty::Struct(si)) => match rng.below(7) {
            0 if fs.len() > 1 => {
                let mut fs = fs.clone();
                rng.shuffle(&mut fs[..]);
                (Literal::Struct(name.clone(), fs), "struct fields permuted")
            }
            1 if fs.len() > 1 => {
                let mut fs = fs.clone();
                let dup = fs[0].clone();
                let last = fs.len() - 1;
                fs[last] = dup;
                (Literal::Struct(name.clone(), fs), "struct field duplicated (another one missing)")
            }
            2 => {
                let mut fs = fs.clone();
                fs.pop();
                (Literal::Struct(name.clone(), fs), "struct field missing")
            }
            3 => {
                let mut fs = fs.clone();
                fs.push(("extra".into(), Literal::True));
                (Literal::Struct(name.clone(), fs), "struct with an unknown extra field")
            }
            4 => (Literal::Struct(format!("{name}x"), fs.clone()), "wrong struct name"),
            _ => {
                let k = rng.usize_below(fs.len());
                let sd = &d.structs[*si];
                let fk = sd.field_index(&fs[k].0).unwrap();
                let (m, what) = mutate_literal(rng, &fs[k].1, &sd.fields[fk].1, d);
                let mut fs = fs.clone();
                fs[k].1 = m;
                (Literal::Struct(name.clone(), fs), what)
            }
        },
        (Literal::Enum(name, vn, payload), Ty::Enum(ei)) => {
            let ed = &d.enums[*ei];
            let vi = ed.variants.iter().position(|(n, _)| vclean(n) == vn).unwrap();
            match (rng.below(6), payload) {
                (0, VariantLiteral::Tuple(fs)) => {
                    let mut fs = fs.clone();
                    fs.pop();
                    (Literal::Enum(name.clone(), vn.clone(), VariantLiteral::Tuple(fs)), "enum payload arity -1")
                }
                (1, VariantLiteral::Tuple(fs)) => {
                    let mut fs = fs.clone();
                    fs.push(fs.first().cloned().unwrap_or(Literal::True));
                    (Literal::Enum(name.clone(), vn.clone(), VariantLiteral::Tuple(fs)), "enum payload arity +1")
                }
                (0 | 1, VariantLiteral::Unit) => (Literal::Enum(name.clone(), vn.clone(), VariantLiteral::Tuple(vec![Literal::True])), "payload on a unit variant"),
                (2, VariantLiteral::Tuple(_)) => (Literal::Enum(name.clone(), vn.clone(), VariantLiteral::Unit), "tuple variant without payload"),
                (3, _) => (Literal::Enum(name.clone(), format!("{vn}x"), payload.clone()), "unknown variant name"),
                (4, _) => (Literal::Enum(format!("{name}x"), vn.clone(), payload.clone()), "wrong enum name"),
                (_, VariantLiteral::Tuple(fs)) if !fs.is_empty() => {
                    let k = rng.usize_below(fs.len());
                    let (m, what) = mutate_literal(rng, &fs[k], &ed.variants[vi].1[k], d);
                    let mut fs = fs.clone();
                    fs[k] = m;
                    (Literal::Enum(name.clone(), vn.clone(), VariantLiteral::Tuple(fs)), what)
                }
                _ => (Literal::Enum(name.clone(), vn.clone(), VariantLiteral::Tuple(vec![])), "empty payload tuple"),
            }
        }
        (Literal::NumUnsigned(n, tag), Ty::Int(it)) => match rng.below(4) {
            0 => (Literal::NumUnsigned((it.max_val() as u64).wrapping_add(1 + rng.below(300)), *tag), "unsigned number above the type's maximum"),
            1 => (Literal::NumUnsigned(*n, if *tag == UnsignedNumType::U8 { UnsignedNumType::U16 } else { UnsignedNumType::U8 }), "wrong unsigned suffix tag"),
            2 => (Literal::NumUnsigned(*n, UnsignedNumType::Unspecified), "unspecified suffix tag"),
            _ => (Literal::NumSigned(*n as i64, SignedNumType::I32), "signed literal for an unsigned type"),
        },
        (Literal::NumSigned(n, tag), Ty::Int(it)) => match rng.below(4) {
            0 => (Literal::NumSigned((it.max_val() as i64).wrapping_add(1 + rng.below(300) as i64), *tag), "signed number above the type's maximum"),
            1 => (Literal::NumSigned((it.min_val() as i64).wrapping_sub(1 + rng.below(300) as i64), *tag), "signed number below the type's minimum"),
            2 => (Literal::NumSigned(*n, if *tag == SignedNumType::I8 { SignedNumType::I16 } else { SignedNumType::I8 }), "wrong signed suffix tag"),
            _ => (Literal::NumUnsigned(*n as u64, UnsignedNumType::U32), "unsigned literal for a signed type"),
        },
        (Literal::True | Literal::False, _) => (Literal::NumUnsigned(1, UnsignedNumType::U8), "number for a bool"),
        (other, _) => (Literal::Tuple(vec![other.clone()]), "wrapped in a 1-tuple"),
    }
}

#[derive(Default)]
struct St {
    counts: Counts,
    distinct: HashSet<u64>,
    samples: Vec<Value>,
    values: u64,
}

fn bits_str(b: &[bool]) -> String {
    b.iter().map(|x| if *x { '1' } else { '0' }).collect()
}

fn check_type(ctx: &Ctx, rng: &mut Rng, st: &mut St) {
    let mut g = G { rng, d: Defs::default() };
    let depth = g.rng.weighted(&[2, 3, 3, 2, 1]) as u32;
    let t = g.gen_ty(depth);
    let d = g.d.clone();
    if t.bits(&d) == 0 || t.bits(&d) > 4000 {
        return;
    }
    let single_array = matches!(t, Ty::Array(..));
    // identity program (a second parameter avoids the "single array = one party per element" rule)
    // in a quarter of the programs some array sizes of the parameter type are given by constants of
    // the same value (`[[u8; N3]; 2]` with N3 = 3): values, texts and encodings stay the same
    let mut shown = t.show(&d);
    let mut consts: garble_lang::GarbleConsts = std::collections::HashMap::new();
    let mut const_decls = String::new();
    let mut defs_shown = defs_text(&d);
    let constify_defs = g.rng.chance(1, 2);
    if g.rng.chance(1, 4) {
      for which in 0..2 {
        // (0: the parameter type, 1: the struct / enum definitions it names)
        if which == 1 && !constify_defs {
            continue;
        }
        let source = if which == 0 { shown.clone() } else { defs_shown.clone() };
        let mut out = String::new();
        let mut rest = source.as_str();
        while let Some(pos) = rest.find("; ") {
            let after = &rest[pos + 2..];
            let digits: String = after.chars().take_while(|c| c.is_ascii_digit()).collect();
            out.push_str(&rest[..pos + 2]);
            if !digits.is_empty() && after[digits.len()..].starts_with(']') && g.rng.bool() {
                let name = format!("N{digits}");
                if !const_decls.contains(&format!("const {name}:")) {
                    const_decls += &format!("const {name}: usize = PARTY_0::{name};\n");
                    consts.entry("PARTY_0".to_string()).or_default().insert(name.clone(), garble_lang::literal::Literal::NumUnsigned(digits.parse().unwrap(), garble_lang::token::UnsignedNumType::Usize));
                }
                out.push_str(&name);
                rest = &after[digits.len()..];
            } else {
                rest = after;
            }
        }
        out.push_str(rest);
        if which == 0 {
            shown = out;
        } else {
            if out != defs_shown {
                st.counts.inc("identity programs with const-sized arrays inside struct / enum definitions");
            }
            defs_shown = out;
        }
      }
        if !consts.is_empty() {
            st.counts.inc("identity programs with const-sized arrays in the parameter type");
        }
    }
    let src = format!("{}{}pub fn main(x: {}, unused: bool) -> {} {{ x }}\n", const_decls, defs_shown, shown, shown);
    let prg: Box<GarbleProgram> = match gl::compile_consts(&src, true, false, consts) {
        CompileOutcome::Ok(p) => p,
        CompileOutcome::Rejected(k, m) => {
            st.counts.inc("identity program rejected");
            if st.counts.get("identity program rejected") <= 2 {
                ctx.inconclusive(&format!("identity program rejected ({k}): {src}\n{}", m.chars().take(300).collect::<String>()));
            }
            return;
        }
        CompileOutcome::Crashed(m) => {
            ctx.violation(&format!("compiler crashed on an identity program: {m}"), json!({"program": src}));
            return;
        }
    };
    let _ = single_array;
    st.distinct.insert(crate::util::fnv(src.as_bytes()));
    let circ = gl::ssa(&prg).clone();
    let size = t.bits(&d);
    if circ.input_gates != vec![size, 1] || circ.output_gates.len() != gl::PANIC_BITS + size {
        ctx.violation(
            &format!("identity program: party sizes {:?} / {} outputs, the type has {size} bits", circ.input_gates, circ.output_gates.len()),
            json!({"program": src}),
        );
        return;
    }
    for _ in 0..6 {
        let v = ty::gen_val(rng, &t, &d);
        st.values += 1;
        let canon_bits = ty::encode_vec(&v, &t, &d);
        let text = ty::val_text(&v, &t, &d);
        let fail = |what: &str, extra: Value| {
            ctx.violation(what, json!({"program": src, "value": text, "detail": extra}));
        };
        // ---- canonical text through parse_arg
        let r = catch(|| prg.parse_arg(0, &text).map(|a| (a.as_bits(), a.as_literal())));
        let lit = match r {
            Err(p) => {
                fail(&format!("parse_arg panicked on a canonical literal: {p}"), json!(null));
                return;
            }
            Ok(Err(e)) => {
                fail(&format!("parse_arg refuses the canonical literal: {e:?}"), json!(null));
                return;
            }
            Ok(Ok((b, lit))) => {
                st.counts.inc("canonical text: accepted");
                if b != canon_bits {
                    fail("as_bits of the parsed canonical literal differs from the documented layout", json!({"as_bits": bits_str(&b), "documented": bits_str(&canon_bits)}));
                    return;
                }
                lit
            }
        };
        // ---- print and parse back
        let printed = lit.to_string();
        // (Literal::parse needs a type without constants: programs with const-sized arrays go
        // through parse_arg, which resolves the sizes first)
        let has_consts = !prg.const_sizes.is_empty();
        match catch(|| if has_consts { prg.parse_arg(0, &printed).map(|a| a.as_literal()).map_err(|e| match e { garble_lang::eval::EvalError::LiteralParseError(e) => e, other => panic!("harness: unexpected error of parse_arg: {other:?}") }) } else { Literal::parse(&prg.program, &prg.main.params[0].ty, &printed) }) {
            Err(p) => {
                fail(&format!("parsing a printed literal panicked: {p}"), json!({"printed": printed}));
                return;
            }
            Ok(Err(e)) => {
                fail("a printed literal cannot be parsed back", json!({"printed": printed, "error": format!("{:?}", garble_lang::Error::from(e).prettify(&printed))}));
                return;
            }
            Ok(Ok(back)) => {
                st.counts.inc("print/parse round trip");
                if back != lit {
                    fail("print -> parse does not give the same literal", json!({"printed": printed, "parsed": format!("{back:?}")}));
                    return;
                }
            }
        }
        // ---- identity circuit + parse_output + decode
        let out = match catch(|| prg.circuit.eval(&[canon_bits.clone(), vec![false]])) {
            Ok(o) => o,
            Err(p) => {
                fail(&format!("eval of the identity program panicked: {p}"), json!(null));
                return;
            }
        };
        if out[0] || out[gl::PANIC_BITS..] != canon_bits[..] {
            fail("the identity program does not return its input bits", json!({"output": bits_str(&out[gl::PANIC_BITS..])}));
            return;
        }
        match catch(|| prg.parse_output(&out)) {
            Ok(Ok(o)) if o == lit => {
                st.counts.inc("identity + parse_output");
            }
            other => {
                fail("parse_output of the identity program's output differs from the input literal", json!({"got": format!("{other:?}").chars().take(300).collect::<String>()}));
                return;
            }
        }
        if ty::decode(&out[gl::PANIC_BITS..], &t, &d).as_ref() != Some(&v) {
            fail("harness: decode(encode(v)) != v", json!(null));
            return;
        }
        // ---- canonical programmatic literal
        let canon_lit = to_literal(&v, &t, &d);
        if canon_lit != lit {
            fail("the parsed canonical text is not the canonical programmatic literal", json!({"parsed": format!("{lit:?}"), "expected": format!("{canon_lit:?}")}));
            return;
        }
        // ---- alternative text spellings: must denote the same value or be refused
        for _ in 0..2 {
            let alt = spellings(rng, &v, &t, &d);
            match catch(|| prg.parse_arg(0, &alt).map(|a| a.as_bits())) {
                Err(p) => {
                    fail(&format!("parse_arg panicked on the spelling {alt}: {p}"), json!(null));
                    return;
                }
                Ok(Err(_)) => st.counts.inc("alternative spelling: refused"),
                Ok(Ok(b)) => {
                    st.counts.inc("alternative spelling: accepted");
                    if b != canon_bits {
                        fail("an accepted spelling encodes to other bits than the value it denotes", json!({"spelling": alt, "as_bits": bits_str(&b), "documented": bits_str(&canon_bits)}));
                        return;
                    }
                }
            }
        }
        // ---- programmatic literals: canonical and corrupted / alternative
        for k in 0..5 {
            let (l, what) = if k == 0 { (canon_lit.clone(), "canonical") } else { mutate_literal(rng, &canon_lit, &t, &d) };
            let denotes = den(&l, &t, &d);
            // three APIs that accept programmatic literals
            let apis: [(&str, Box<dyn Fn() -> Result<Vec<bool>, String>>); 2] = [
                ("literal_arg", Box::new(|| prg.literal_arg(0, l.clone()).map(|a| a.as_bits()).map_err(|e| format!("{e:?}")))),
                (
                    "Evaluator::set_literal",
                    Box::new(|| {
                        let mut ev = prg.evaluator();
                        if let Err(e) = ev.set_literal(l.clone()) {
                            // a refusal has no side effect: the same evaluator still takes the
                            // canonical literal for this parameter and runs to the canonical output
                            let retry = (|| -> Result<Vec<bool>, String> {
                                ev.set_literal(canon_lit.clone()).map_err(|e| format!("set_literal(canonical) after a refusal: {e:?}"))?;
                                ev.set_bool(false);
                                let o = ev.run().map_err(|e| format!("run after a refusal: {e:?}"))?;
                                Vec::<bool>::try_from(o).map_err(|e| format!("output after a refusal: {e:?}"))
                            })();
                            match retry {
                                Ok(bits) if bits == canon_bits => {}
                                Ok(_) => panic!("harness-verdict: after a refused literal the evaluator computes another output for the canonical literal"),
                                Err(why) => panic!("harness-verdict: a refused literal leaves the evaluator in a state that refuses the canonical literal ({why})"),
                            }
                            return Err(format!("{e:?}"));
                        }
                        ev.set_bool(false);
                        let o = ev.run().map_err(|e| format!("run: {e:?}"))?;
                        let bits: Vec<bool> = Vec::<bool>::try_from(o).map_err(|e| format!("output: {e:?}"))?;
                        Ok(bits)
                    }),
                ),
            ];
            for (api, f) in apis.iter() {
                let r = catch(|| f());
                let class = match (&r, &denotes) {
                    (Err(p), _) => {
                        fail(&format!("{api} panicked on a literal ({what}): {p}"), json!({"literal": format!("{l:?}")}));
                        return;
                    }
                    (Ok(Err(_)), Some(_)) if k == 0 => {
                        fail(&format!("{api} refuses the canonical programmatic literal"), json!({"literal": format!("{l:?}")}));
                        return;
                    }
                    (Ok(Err(_)), _) => "refused",
                    (Ok(Ok(_)), None) => {
                        fail(&format!("{api} accepts a literal that denotes no value of the type ({what})"), json!({"literal": format!("{l:?}"), "type": t.show(&d)}));
                        return;
                    }
                    (Ok(Ok(b)), Some(dv)) => {
                        let want = ty::encode_vec(dv, &t, &d);
                        if *b != want {
                            fail(&format!("{api} accepts a literal ({what}) but encodes it differently from the value it denotes"), json!({"literal": format!("{l:?}"), "bits": bits_str(b), "documented": bits_str(&want)}));
                            return;
                        }
                        "accepted-equal"
                    }
                };
                st.counts.inc(&format!("{api}: {what}: {class}"));
            }
        }
        // ---- the canonical text followed by further tokens is no literal of the type: refused
        for _ in 0..2 {
            let junk = *rng.pick(&["true", "false", "0", "1u8", ")", "]", "}", ",", ";", "x", "..", "[", "(", "- 1", "as u8", "+ 1", "// c\n1", "::A", ". 0"]);
            let bad = format!("{text} {junk}");
            match catch(|| prg.parse_arg(0, &bad).map(|a| a.as_literal())) {
                Err(p) => {
                    fail(&format!("parse_arg panicked on a text with trailing tokens: {p}"), json!({"text": bad}));
                    return;
                }
                Ok(Err(_)) => st.counts.inc("parse_arg(text): trailing tokens after the literal: refused"),
                Ok(Ok(parsed)) => {
                    fail("parse_arg accepts a text with further tokens after the literal (they are ignored silently)", json!({"text": bad, "parsed": format!("{parsed:?}").chars().take(300).collect::<String>(), "type": t.show(&d)}));
                    return;
                }
            }
        }
        // ---- range texts for arrays of unsigned numbers: a range whose elements fit is the array of
        //      its elements, a range that runs past the largest number of the element type denotes
        //      no value (without suffix, with one suffix, with both)
        if let Ty::Array(et, n) = &t {
            if let Ty::Int(it) = &**et {
                if !it.signed && *n >= 1 {
                    let max = it.max_val();
                    let suffixed = |v: i128, how: u64, left: bool| match (how, left) {
                        (0, _) | (1, false) | (2, true) => v.to_string(),
                        _ => it.lit(v),
                    };
                    let how = rng.below(4);
                    // fits
                    let lo = if rng.bool() { rng.below(5) as i128 } else { max + 1 - *n as i128 };
                    if lo >= 0 {
                        let text_r = format!("{}..{}", suffixed(lo, how, true), if lo + *n as i128 > max && how != 0 && how != 1 { (lo + *n as i128).to_string() } else { suffixed(lo + *n as i128, how, false) });
                        let want = ty::encode_vec(&Val::Array((0..*n as i128).map(|k| Val::Int(lo + k)).collect()), &t, &d);
                        match catch(|| prg.parse_arg(0, &text_r).map(|a| a.as_bits())) {
                            Err(p) => {
                                fail(&format!("parse_arg panicked on a range text: {p}"), json!({"text": text_r}));
                                return;
                            }
                            Ok(Err(_)) => st.counts.inc("parse_arg(text): range that fits: refused"),
                            Ok(Ok(b)) => {
                                if b != want {
                                    fail("parse_arg accepts a range text but encodes it differently from the array of its elements", json!({"text": text_r, "bits": bits_str(&b), "documented": bits_str(&want)}));
                                    return;
                                }
                                st.counts.inc("parse_arg(text): range that fits: accepted-equal");
                            }
                        }
                    }
                    // runs past the largest number of the type
                    if it.bits < 64 {
                        let lo = max + 2 - *n as i128;
                        if lo >= 0 {
                            let text_r = format!("{}..{}", suffixed(lo, how, true), (lo + *n as i128).to_string());
                            match catch(|| prg.parse_arg(0, &text_r).map(|a| a.as_literal())) {
                                Err(p) => {
                                    fail(&format!("parse_arg panicked on a range text: {p}"), json!({"text": text_r}));
                                    return;
                                }
                                Ok(Err(_)) => st.counts.inc("parse_arg(text): range past the largest number of the type: refused"),
                                Ok(Ok(parsed)) => {
                                    fail("parse_arg accepts a range whose last element does not fit the element type (the text denotes no value)", json!({"text": text_r, "parsed": format!("{parsed:?}"), "type": t.show(&d)}));
                                    return;
                                }
                            }
                        }
                    }
                }
            }
        }
        // ---- repeat texts `[e; n]`: the array of n copies of e; an element in which a number does not
        //      fit its type denotes no value (the element of a repeat is checked like any other)
        if let (Ty::Array(et, n), Val::Array(elems)) = (&t, &v) {
            if *n >= 1 && !elems.is_empty() {
                let e0 = &elems[0];
                let text_rep = format!("[{}; {n}]", ty::val_text(e0, et, &d));
                let want = ty::encode_vec(&Val::Array(vec![e0.clone(); *n]), &t, &d);
                match catch(|| prg.parse_arg(0, &text_rep).map(|a| a.as_bits())) {
                    Err(p) => {
                        fail(&format!("parse_arg panicked on a repeat text: {p}"), json!({"text": text_rep}));
                        return;
                    }
                    Ok(Err(_)) => st.counts.inc("parse_arg(text): repeat of a canonical element: refused"),
                    Ok(Ok(b)) => {
                        if b != want {
                            fail("parse_arg accepts a repeat text but encodes it differently from the array of its copies", json!({"text": text_rep, "bits": bits_str(&b), "documented": bits_str(&want)}));
                            return;
                        }
                        st.counts.inc("parse_arg(text): repeat of a canonical element: accepted-equal");
                    }
                }
                let k_ints = count_ints(e0);
                if k_ints > 0 {
                    let target = rng.usize_below(k_ints);
                    let mut chosen = String::new();
                    let bad_elem = text_with_number(e0, et, &d, target, &mut 0, &mut |it| {
                        chosen = out_of_range_number(rng, it);
                        chosen.clone()
                    });
                    // (for rows that are arrays themselves also as a repeat of a repeat)
                    let bad = match (&**et, e0) {
                        (Ty::Array(it, m), Val::Array(inner)) if *m >= 1 && !inner.is_empty() && count_ints(&inner[0]) > 0 && rng.bool() => {
                            let t2 = rng.usize_below(count_ints(&inner[0]));
                            let bad_inner = text_with_number(&inner[0], it, &d, t2, &mut 0, &mut |ity| {
                                chosen = out_of_range_number(rng, ity);
                                chosen.clone()
                            });
                            format!("[[{bad_inner}; {m}]; {n}]")
                        }
                        _ => format!("[{bad_elem}; {n}]"),
                    };
                    match catch(|| prg.parse_arg(0, &bad).map(|a| a.as_literal())) {
                        Err(p) => {
                            fail(&format!("parse_arg panicked on a repeat text with an out-of-range number: {p}"), json!({"text": bad}));
                            return;
                        }
                        Ok(Err(_)) => st.counts.inc("parse_arg(text): repeat of an element with a number outside its type: refused"),
                        Ok(Ok(parsed)) => {
                            fail(
                                "parse_arg accepts a repeat text whose element holds a number that does not fit its type (the text denotes no value)",
                                json!({"text": bad, "number": chosen, "parsed": format!("{parsed:?}").chars().take(400).collect::<String>(), "type": t.show(&d)}),
                            );
                            return;
                        }
                    }
                }
            }
        }
        // ---- canonical text with one number replaced by a number that does not fit its type: the
        //      text denotes no value of the type and must be refused (not wrapped or truncated)
        let n_ints = count_ints(&v);
        for _ in 0..(if n_ints > 0 { 3 } else { 0 }) {
            let target = rng.usize_below(n_ints);
            let mut chosen = String::new();
            let bad = text_with_number(&v, &t, &d, target, &mut 0, &mut |it| {
                chosen = out_of_range_number(rng, it);
                chosen.clone()
            });
            match catch(|| prg.parse_arg(0, &bad).map(|a| a.as_literal())) {
                Err(p) => {
                    fail(&format!("parse_arg panicked on a text with an out-of-range number: {p}"), json!({"text": bad}));
                    return;
                }
                Ok(Err(_)) => st.counts.inc("parse_arg(text): number outside the range of its type: refused"),
                Ok(Ok(parsed)) => {
                    fail(
                        "parse_arg accepts a text in which a number does not fit its type (the text denotes no value)",
                        json!({"text": bad, "number": chosen, "parsed": format!("{parsed:?}").chars().take(400).collect::<String>(), "type": t.show(&d)}),
                    );
                    return;
                }
            }
        }
        // ---- the printed text of corrupted / alternative literals through the text API: whatever
        //      parse_arg accepts must denote a value of the type and encode exactly as that value
        for _ in 0..3 {
            let (l, what) = mutate_literal(rng, &canon_lit, &t, &d);
            let Ok(text_l) = catch(|| l.to_string()) else {
                fail(&format!("Display of a literal panicked ({what})"), json!({"literal": format!("{l:?}")}));
                return;
            };
            match catch(|| prg.parse_arg(0, &text_l).map(|a| (a.as_bits(), a.as_literal()))) {
                Err(p) => {
                    fail(&format!("parse_arg panicked on the text of a literal ({what}): {p}"), json!({"text": text_l}));
                    return;
                }
                Ok(Err(e)) => {
                    // a literal that denotes a value of the type and that the programmatic API
                    // accepts is a value of the type: its printed form has to parse back
                    let accepted = den(&l, &t, &d).is_some() && matches!(catch(|| prg.literal_arg(0, l.clone()).map(|_| ())), Ok(Ok(())));
                    if accepted {
                        fail(&format!("the printed form of a literal that literal_arg accepts ({what}) is refused by parse_arg"), json!({"text": text_l, "literal": format!("{l:?}"), "error": format!("{e:?}").chars().take(300).collect::<String>(), "type": t.show(&d)}));
                        return;
                    }
                    st.counts.inc(&format!("parse_arg(text): {what}: refused"))
                }
                Ok(Ok((b, parsed))) => match den(&parsed, &t, &d) {
                    None => {
                        fail(
                            &format!("parse_arg accepts a text ({what}) whose literal denotes no value of the type"),
                            json!({"text": text_l, "parsed": format!("{parsed:?}"), "type": t.show(&d), "bits": b.len(), "type_bits": size}),
                        );
                        return;
                    }
                    Some(dv) => {
                        let want = ty::encode_vec(&dv, &t, &d);
                        if b != want {
                            fail(
                                &format!("parse_arg accepts a text ({what}) but encodes it differently from the value it denotes"),
                                json!({"text": text_l, "parsed": format!("{parsed:?}"), "bits": bits_str(&b), "documented": bits_str(&want)}),
                            );
                            return;
                        }
                        st.counts.inc(&format!("parse_arg(text): {what}: accepted-equal"));
                    }
                },
            }
        }
        if st.samples.len() < 2 && depth >= 2 && size < 200 {
            st.samples.push(json!({"type": t.show(&d), "definitions": defs_text(&d), "value": text, "bits": bits_str(&canon_bits)}));
        }
    }
}

/// Primitive round trips through Evaluator::set_<int> and TryFrom<EvalOutput>.
fn check_prims(ctx: &Ctx, rng: &mut Rng, st: &mut St) {
    macro_rules! one {
        ($t:ty, $name:expr, $set:ident) => {{
            let src = format!("pub fn main(x: {}) -> {} {{ x }}", $name, $name);
            if let CompileOutcome::Ok(prg) = gl::compile(&src, true, false) {
                for _ in 0..40 {
                    let v: $t = if rng.chance(1, 3) { *rng.pick(&[<$t>::MIN, <$t>::MAX, 0 as $t, 1 as $t]) } else { rng.next_u64() as $t };
                    let r = catch(|| {
                        let mut ev = prg.evaluator();
                        ev.$set(v);
                        let o = ev.run().map_err(|e| format!("{e:?}"))?;
                        <$t>::try_from(o).map_err(|e| format!("{e:?}"))
                    });
                    st.counts.inc("Evaluator::set_<int> / TryFrom<EvalOutput>");
                    if !matches!(&r, Ok(Ok(x)) if *x == v) {
                        ctx.violation(&format!("set_{} / TryFrom round trip of {v} gives {r:?}", $name), json!({"program": src, "value": v.to_string()}));
                    }
                }
            }
        }};
    }
    one!(u8, "u8", set_u8);
    one!(u16, "u16", set_u16);
    one!(u32, "u32", set_u32);
    one!(u64, "u64", set_u64);
    one!(i8, "i8", set_i8);
    one!(i16, "i16", set_i16);
    one!(i32, "i32", set_i32);
    one!(i64, "i64", set_i64);
    let _ = bits::STD;
}

pub fn run(ctx: &Ctx) -> i32 {
    let results = par(WORKERS, |w| {
        let mut rng = Rng::derive(ctx.seed, 0x0900 + w as u64);
        let mut st = St::default();
        let mut n = 0u64;
        if w == 0 {
            check_prims(ctx, &mut rng, &mut st);
        }
        while !ctx.out_of_time() {
            for _ in 0..5 {
                check_type(ctx, &mut rng, &mut st);
                n += 1;
            }
        }
        (n, st)
    });
    let mut n = 0;
    let mut t = St::default();
    for (k, s) in results {
        n += k;
        t.counts.merge(&s.counts);
        t.distinct.extend(s.distinct);
        t.values += s.values;
        if t.samples.len() < 3 {
            t.samples.extend(s.samples.into_iter().take(1));
        }
    }
    let mut cov = Map::new();
    cov.insert("evaluations".into(), json!(t.values));
    cov.insert("distinct_nontrivial".into(), json!(t.distinct.len()));
    cov.insert("rule".into(), json!("a case is a generated type (distinct by the source of its identity program) with 6 boundary-biased values each; per value: canonical text through parse_arg vs the documented layout, print/parse round trip, identity circuit, parse_output, 2 alternative text spellings, the canonical programmatic literal and 4 corrupted / alternative programmatic literals through literal_arg and Evaluator::set_literal, judged by the harness' denotation function"));
    cov.insert("types".into(), json!(n));
    cov.insert("values".into(), json!(t.values));
    cov.insert("by_api_and_literal_class".into(), t.counts.to_json());
    cov.insert("exhaustive".into(), json!(false));
    cov.insert("samples".into(), json!(t.samples));
    ctx.finish(cov, vec!["documented layout: big-endian two's complement, elements/fields concatenated (struct fields in name order), enum tag then zero-padded payload".into()], 200)
}
