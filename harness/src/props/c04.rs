//! C04 — circuit optimisations never change the computed function.
//!
//! (a) synthetic request histories driven through the hook wrapper around the real CircuitBuilder:
//!     exhaustive enumeration of short histories, random long histories with composite requests;
//! (b) the same event-log checker on real compilations;
//! (c) de-duplication on/off differential on compiled programs.

use crate::bits::{self, STD};
use crate::corpus;
use crate::gl::{self, CompileOutcome};
use crate::rng::Rng;
use crate::trace::{self, TraceStats};
use crate::util::{catch, par, Counts, Ctx, Tier, WORKERS};
use garble_lang::token::MetaInfo;
use garble_lang::verif_hooks::{self as vh, Builder};
use serde_json::{json, Map, Value};
use std::sync::Mutex;

#[derive(Clone, Copy, Debug, PartialEq, Eq)]
enum P {
    Xor,
    And,
    Not,
    Or,
    Eq,
    Mux,
}

impl P {
    fn name(self) -> &'static str {
        match self {
            P::Xor => "xor",
            P::And => "and",
            P::Not => "not",
            P::Or => "or",
            P::Eq => "eq",
            P::Mux => "mux",
        }
    }
}

fn mask_for(n_inputs: usize) -> u64 {
    if n_inputs >= 6 {
        !0
    } else {
        (1u64 << (1u32 << n_inputs)) - 1
    }
}

#[derive(Default)]
struct Agg {
    histories: u64,
    requests: u64,
    builds: u64,
    stats: TraceStats,
    samples: Vec<Value>,
    distinct: std::collections::HashSet<u64>,
}

impl Agg {
    fn merge(&mut self, o: Agg) {
        self.histories += o.histories;
        self.requests += o.requests;
        self.builds += o.builds;
        self.stats.req_events += o.stats.req_events;
        self.stats.panic_events += o.stats.panic_events;
        self.stats.outcomes.merge(&o.stats.outcomes);
        for s in o.samples {
            if self.samples.len() < 8 {
                self.samples.push(s);
            }
        }
        self.distinct.extend(o.distinct);
    }
}

struct Dfs<'a> {
    ctx: &'a Ctx,
    n_inputs: usize,
    ops: &'a [P],
    max_len: usize,
    cache: bool,
    inputs: Vec<u64>,
    mask: u64,
    agg: Agg,
    path: Vec<String>,
}

impl Dfs<'_> {
    fn apply(b: &mut Builder, op: P, a: usize, c: usize, d: usize) -> usize {
        match op {
            P::Xor => b.push_xor(a, c),
            P::And => b.push_and(a, c),
            P::Not => b.push_not(a),
            P::Or => b.push_or(a, c),
            P::Eq => b.push_eq(a, c),
            P::Mux => b.push_mux(a, c, d),
        }
    }

    fn literal(op: P, w: &[u64], a: usize, c: usize, d: usize) -> u64 {
        match op {
            P::Xor => w[a] ^ w[c],
            P::And => w[a] & w[c],
            P::Not => !w[a],
            P::Or => w[a] | w[c],
            P::Eq => !(w[a] ^ w[c]),
            P::Mux => (w[a] & w[c]) | (!w[a] & w[d]),
        }
    }

    fn step(&mut self, b: &Builder, pool: &[usize], depth: usize, only_first: Option<(usize, usize)>) {
        // enumerate all requests
        let mut idx = 0usize;
        for &op in self.ops {
            let arity = match op {
                P::Not => 1,
                P::Mux => 3,
                _ => 2,
            };
            let p = pool.len();
            let combos = p.pow(arity as u32);
            for combo in 0..combos {
                let my_idx = idx;
                idx += 1;
                if let Some((w, n)) = only_first {
                    if my_idx % n != w {
                        continue;
                    }
                }
                if self.ctx.stop.load(std::sync::atomic::Ordering::Relaxed) {
                    return;
                }
                let a = pool[combo % p];
                let c = if arity >= 2 { pool[(combo / p) % p] } else { 0 };
                let d = if arity >= 3 { pool[(combo / p / p) % p] } else { 0 };
                let mut nb = b.clone();
                vh::take_events();
                let r = catch(|| Self::apply(&mut nb, op, a, c, d));
                let events = vh::take_events();
                self.agg.requests += 1;
                let desc = match arity {
                    1 => format!("{}({a})", op.name()),
                    2 => format!("{}({a},{c})", op.name()),
                    _ => format!("{}({a},{c},{d})", op.name()),
                };
                self.path.push(desc);
                match r {
                    Err(p) => {
                        self.report(&format!("builder panicked: {p}"));
                    }
                    Ok(ret) => {
                        let gates = nb.raw_gates();
                        let shift = nb.shift();
                        match trace::real_wires(shift, &gates, &self.inputs) {
                            Err(e) => self.report(&e),
                            Ok(real) => {
                                let mut ok = true;
                                if let Err(e) = trace::check_events(&events, shift, &gates, &real, self.mask, &mut self.agg.stats) {
                                    self.report(&e);
                                    ok = false;
                                }
                                // top-level literal meaning of the whole request
                                if ok {
                                    if ret >= real.len() {
                                        self.report(&format!("returned wire {ret} does not exist"));
                                        ok = false;
                                    } else {
                                        let want = Self::literal(op, &real, a, c, d);
                                        if (want ^ real[ret]) & self.mask != 0 {
                                            self.report(&format!(
                                                "returned wire {ret} computes {:#x}, literal meaning is {:#x}",
                                                real[ret] & self.mask,
                                                want & self.mask
                                            ));
                                            ok = false;
                                        }
                                    }
                                }
                                if ok {
                                    let mut npool = pool.to_vec();
                                    npool.push(ret);
                                    if depth + 1 < self.max_len {
                                        self.step(&nb, &npool, depth + 1, None);
                                    } else {
                                        self.leaf(nb, &npool, &real);
                                    }
                                }
                            }
                        }
                    }
                }
                self.path.pop();
            }
        }
    }

    fn leaf(&mut self, b: Builder, pool: &[usize], real: &[u64]) {
        self.agg.histories += 1;
        let h = crate::util::fnv(self.path.join(";").as_bytes());
        // outputs: the returned wires of all steps, or only the last one (so that earlier gates may
        // become unused and get pruned / renumbered)
        let first_ret = 2 + self.n_inputs;
        let outputs: Vec<usize> = if h & 1 == 0 {
            pool[first_ret.min(pool.len() - 1)..].to_vec()
        } else {
            vec![*pool.last().unwrap()]
        };
        let panic_wires = b.panic_wires();
        let outs = outputs.clone();
        let built = catch(move || b.build(outs));
        vh::take_snapshots();
        self.agg.builds += 1;
        match built {
            Err(p) => self.report(&format!("build panicked: {p}")),
            Ok(circ) => {
                if let Err(e) = circ.validate() {
                    self.report(&format!("built circuit fails validate(): {e:?}"));
                    return;
                }
                match bits::eval_ssa(&circ, &self.inputs) {
                    Err(e) => self.report(&format!("built circuit: {e}")),
                    Ok(out) => {
                        let wanted: Vec<usize> = panic_wires.iter().chain(outputs.iter()).copied().collect();
                        if out.len() != wanted.len() {
                            self.report("built circuit has the wrong number of outputs");
                            return;
                        }
                        for (k, w) in wanted.iter().enumerate() {
                            if (out[k] ^ real[*w]) & self.mask != 0 {
                                self.report(&format!(
                                    "output {k} of the built circuit computes {:#x}, builder wire {w} computes {:#x}",
                                    out[k] & self.mask,
                                    real[*w] & self.mask
                                ));
                                return;
                            }
                        }
                    }
                }
            }
        }
        if self.agg.samples.len() < 2 && h % 100_003 == 7 {
            self.agg.samples.push(json!({"kind": "enumerated history", "inputs": self.n_inputs, "cache_gates": self.cache, "requests": self.path.clone(), "returned_pool": pool}));
        }
    }

    fn report(&mut self, what: &str) {
        self.ctx.violation(
            &format!("synthetic history (cache_gates={}, {} inputs): {}", self.cache, self.n_inputs, what),
            json!({"kind": "history", "inputs": self.n_inputs, "cache_gates": self.cache, "requests": self.path.clone(), "problem": what}),
        );
    }
}

fn enumerate(ctx: &Ctx, n_inputs: usize, ops: &[P], max_len: usize, cache: bool) -> Agg {
    let results = par(WORKERS, |w| {
        vh::set_tracing(true);
        let inputs: Vec<u64> = STD[..n_inputs].to_vec();
        let mut d = Dfs {
            ctx,
            n_inputs,
            ops,
            max_len,
            cache,
            inputs,
            mask: mask_for(n_inputs),
            agg: Agg::default(),
            path: vec![],
        };
        let b = Builder::new(vec![n_inputs], cache);
        let pool: Vec<usize> = (0..2 + n_inputs).collect();
        d.step(&b, &pool, 0, Some((w, WORKERS)));
        vh::set_tracing(false);
        d.agg
    });
    let mut agg = Agg::default();
    for r in results {
        agg.merge(r);
    }
    agg
}

// ---------------------------------------------------------------------------------------------
// random long histories with composite requests

fn pick_vec(rng: &mut Rng, pool: &[usize], k: usize) -> Vec<usize> {
    (0..k).map(|_| *rng.pick(pool)).collect()
}

fn random_history(ctx: &Ctx, rng: &mut Rng, cache: bool, with_panic: bool, agg: &mut Agg) {
    let n_inputs = 3 + rng.usize_below(4);
    let parties = if rng.bool() { vec![n_inputs] } else { vec![1, n_inputs - 1] };
    let maxlen = *rng.pick(&[30usize, 100, 300]);
    let len = 10 + rng.usize_below(maxlen);
    let inputs: Vec<u64> = STD[..n_inputs].to_vec();
    let mask = mask_for(n_inputs);
    let mut b = Builder::new(parties.clone(), cache);
    let mut pool: Vec<usize> = (0..2 + n_inputs).collect();
    let mut log: Vec<String> = vec![];
    vh::take_events();
    vh::take_snapshots();
    let r = catch(|| {
        for _ in 0..len {
            // bias operands towards recent wires so that rewrite patterns on gate operands trigger
            let recent: Vec<usize> = pool[pool.len().saturating_sub(8)..].to_vec();
            let src: &[usize] = if rng.chance(2, 3) { &recent } else { &pool };
            let kind = rng.weighted(&[20, 20, 8, 8, 6, 10, 4, 3, 3, 2, 2, 2, 2, 2, 2, 2, 1, 1, 3]);
            match kind {
                0 => {
                    let (x, y) = (*rng.pick(src), *rng.pick(src));
                    let r = b.push_xor(x, y);
                    log.push(format!("xor({x},{y})->{r}"));
                    pool.push(r);
                }
                1 => {
                    let (x, y) = (*rng.pick(src), *rng.pick(src));
                    let r = b.push_and(x, y);
                    log.push(format!("and({x},{y})->{r}"));
                    pool.push(r);
                }
                2 => {
                    let x = *rng.pick(src);
                    let r = b.push_not(x);
                    log.push(format!("not({x})->{r}"));
                    pool.push(r);
                }
                3 => {
                    let (x, y) = (*rng.pick(src), *rng.pick(src));
                    let r = b.push_or(x, y);
                    log.push(format!("or({x},{y})->{r}"));
                    pool.push(r);
                }
                4 => {
                    let (x, y) = (*rng.pick(src), *rng.pick(src));
                    let r = b.push_eq(x, y);
                    log.push(format!("eq({x},{y})->{r}"));
                    pool.push(r);
                }
                5 => {
                    let (s, x, y) = (*rng.pick(src), *rng.pick(src), *rng.pick(src));
                    let r = b.push_mux(s, x, y);
                    log.push(format!("mux({s},{x},{y})->{r}"));
                    pool.push(r);
                }
                6 => {
                    let (x, y, c) = (*rng.pick(src), *rng.pick(src), *rng.pick(src));
                    let (s, co) = b.push_adder(x, y, c);
                    log.push(format!("adder({x},{y},{c})->({s},{co})"));
                    pool.push(s);
                    pool.push(co);
                }
                7 => {
                    let k = 1 + rng.usize_below(6);
                    let (x, y) = (pick_vec(rng, src, k), pick_vec(rng, src, k));
                    let (s, c, cp) = b.push_addition_circuit(&x, &y);
                    log.push(format!("addition({x:?},{y:?})->({s:?},{c},{cp})"));
                    pool.extend(s);
                    pool.push(c);
                    pool.push(cp);
                }
                8 => {
                    let k = 1 + rng.usize_below(6);
                    let (x, y) = (pick_vec(rng, src, k), pick_vec(rng, src, k));
                    let signed = rng.bool();
                    let (s, o) = b.push_subtraction_circuit(&x, &y, signed);
                    log.push(format!("subtraction({x:?},{y:?},{signed})->({s:?},{o})"));
                    pool.extend(s);
                    pool.push(o);
                }
                9 => {
                    let k = 1 + rng.usize_below(6);
                    let x = pick_vec(rng, src, k);
                    let n = b.push_negation_circuit(&x);
                    log.push(format!("negation({x:?})->{n:?}"));
                    pool.extend(n);
                }
                10 => {
                    let k = 1 + rng.usize_below(5);
                    let (x, y) = (pick_vec(rng, src, k), pick_vec(rng, src, k));
                    let (q, r) = b.push_unsigned_division_circuit(&x, &y);
                    log.push(format!("udiv({x:?},{y:?})->({q:?},{r:?})"));
                    pool.extend(q);
                    pool.extend(r);
                }
                11 => {
                    let k = 2 + rng.usize_below(4);
                    let (mut x, mut y) = (pick_vec(rng, src, k), pick_vec(rng, src, k));
                    let (x0, y0) = (x.clone(), y.clone());
                    let (q, r) = b.push_signed_division_circuit(&mut x, &mut y);
                    log.push(format!("sdiv({x0:?},{y0:?})->({q:?},{r:?})"));
                    pool.extend(q);
                    pool.extend(r);
                }
                12 => {
                    let k = 1 + rng.usize_below(6);
                    let (x, y) = (pick_vec(rng, src, k), pick_vec(rng, src, k));
                    let (sx, sy) = (rng.bool(), rng.bool());
                    let (lt, gt) = b.push_comparator_circuit(k, &x, sx, &y, sy);
                    log.push(format!("cmp({x:?},{sx},{y:?},{sy})->({lt},{gt})"));
                    pool.push(lt);
                    pool.push(gt);
                }
                13 => {
                    let k = 1 + rng.usize_below(6);
                    let (x, y) = (pick_vec(rng, src, k), pick_vec(rng, src, k));
                    let g = b.push_gt_circuit(k, &x, &y);
                    log.push(format!("gt({x:?},{y:?})->{g}"));
                    pool.push(g);
                }
                14 => {
                    let (s, x, y) = (*rng.pick(src), *rng.pick(src), *rng.pick(src));
                    let (p, q) = b.push_condswap(s, x, y);
                    log.push(format!("condswap({s},{x},{y})->({p},{q})"));
                    pool.push(p);
                    pool.push(q);
                }
                15 => {
                    let k = 1 + rng.usize_below(4);
                    let w = k + rng.usize_below(3);
                    let (x, y) = (pick_vec(rng, src, w), pick_vec(rng, src, w));
                    let (mn, mx) = b.push_sorter(k, &x, &y);
                    log.push(format!("sorter({k},{x:?},{y:?})->({mn:?},{mx:?})"));
                    pool.extend(mn);
                    pool.extend(mx);
                }
                16 => {
                    let k = 1 + rng.usize_below(5);
                    let (x, y) = (pick_vec(rng, src, k), pick_vec(rng, src, k));
                    let e = b.push_eq_circuit(&x, &y);
                    log.push(format!("eq_circuit({x:?},{y:?})->{e}"));
                    pool.push(e);
                }
                17 => {
                    let (x, y, z, c) = (*rng.pick(src), *rng.pick(src), *rng.pick(src), *rng.pick(src));
                    let (s, co) = b.push_multiplier(x, y, z, c);
                    log.push(format!("multiplier({x},{y},{z},{c})->({s},{co})"));
                    pool.push(s);
                    pool.push(co);
                }
                _ => {
                    if with_panic {
                        let c = *rng.pick(src);
                        let reason = 1 + rng.below(3) as u32;
                        let line = rng.usize_below(1000);
                        let meta = MetaInfo { start: (line, rng.usize_below(80)), end: (line + rng.usize_below(3), rng.usize_below(80)) };
                        b.push_panic_if(c, reason, meta);
                        log.push(format!("panic_if({c},{reason},{meta:?})"));
                    }
                }
            }
        }
        let n_out = 1 + rng.usize_below(8);
        let outputs: Vec<usize> = (0..n_out)
            .map(|_| if rng.chance(3, 4) { pool[pool.len() - 1 - rng.usize_below(pool.len().min(12))] } else { *rng.pick(&pool) })
            .collect();
        log.push(format!("build({outputs:?})"));
        b.build(outputs)
    });
    let snaps = vh::take_snapshots();
    agg.histories += 1;
    agg.requests += log.len() as u64;
    let report = |what: &str| {
        ctx.violation(
            &format!("random history (cache_gates={cache}, {n_inputs} inputs): {what}"),
            json!({"kind": "random-history", "parties": parties, "cache_gates": cache, "requests": log, "problem": what}),
        );
    };
    match r {
        Err(p) => {
            vh::take_events();
            report(&format!("builder panicked: {p}"));
        }
        Ok(circ) => {
            agg.builds += 1;
            let Some(snap) = snaps.last() else {
                ctx.inconclusive("hook H5 produced no snapshot");
                return;
            };
            if let Err(e) = circ.validate() {
                report(&format!("built circuit fails validate(): {e:?}"));
                return;
            }
            if let Err(e) = trace::check_snapshot(snap, &circ, &inputs, mask, &mut agg.stats, with_panic) {
                report(&e);
                return;
            }
            agg.distinct.insert(crate::util::fnv(log.join(";").as_bytes()));
            if agg.samples.len() < 2 && log.len() < 40 {
                agg.samples.push(json!({"kind": "random history", "parties": parties, "cache_gates": cache, "requests": log}));
            }
        }
    }
}

// ---------------------------------------------------------------------------------------------
// real compilations: trace check (b) and on/off differential (c)

pub fn op_programs() -> Vec<String> {
    let mut v = vec![];
    for t in ["u8", "i8", "u16", "i16", "u32", "i32", "u64", "i64"] {
        for op in ["+", "-", "*", "/", "%", "&", "|", "^", "<", ">", "<=", ">=", "==", "!="] {
            let r = if ["<", ">", "<=", ">=", "==", "!="].contains(&op) { "bool" } else { t };
            v.push(format!("pub fn main(x: {t}, y: {t}) -> {r} {{ x {op} y }}"));
        }
        for op in ["<<", ">>"] {
            v.push(format!("pub fn main(x: {t}, y: u8) -> {t} {{ x {op} y }}"));
        }
        v.push(format!("pub fn main(x: {t}, y: {t}, z: {t}) -> {t} {{ if x < y {{ (x + y) * z }} else {{ (x - y) / z }} }}"));
        v.push(format!("pub fn main(a: [{t}; 4], i: usize, v: {t}) -> [{t}; 4] {{ let mut b = a; b[i] = v + a[i]; b[(i + 1usize) % 4usize] = a[0] - v; b }}"));
        v.push(format!("pub fn main(x: {t}, y: {t}) -> {t} {{ let a = x + y; let b = x + y; let c = if a == b {{ a * 3{t} }} else {{ b }}; match c {{ 0{t} => x, 1{t}..=9{t} => y, _ => c + x }} }}"));
    }
    v
}

pub fn random_input_words(rng: &mut Rng, n: usize) -> Vec<u64> {
    (0..n)
        .map(|_| match rng.below(8) {
            0 => 0,
            1 => !0,
            _ => rng.next_u64(),
        })
        .collect()
}

/// Compile `src` with tracing and check the trace + built circuit; then the on/off differential.
pub fn check_compilation(ctx: &Ctx, src: &str, origin: &str, rng: &mut Rng, agg: &mut Agg, lanes_batches: usize, check_panic_events: bool) -> bool {
    let t0 = std::time::Instant::now();
    let r = check_compilation_inner(ctx, src, origin, rng, agg, lanes_batches, check_panic_events);
    let dt = t0.elapsed().as_secs_f64();
    if dt > 3.0 {
        eprintln!("note: slow corpus program ({dt:.1}s): {origin}");
    }
    r
}

fn check_compilation_inner(ctx: &Ctx, src: &str, origin: &str, rng: &mut Rng, agg: &mut Agg, lanes_batches: usize, check_panic_events: bool) -> bool {
    let mut circuits = vec![];
    // size probe (untraced): tracing records one event per gate request, so programs that issue
    // hundreds of millions of requests (e.g. 500x500 constant-index updates) are not traced
    let t0 = std::time::Instant::now();
    match gl::compile(src, true, false) {
        CompileOutcome::Ok(_) => {}
        _ => return false,
    }
    if t0.elapsed().as_secs_f64() > 0.25 {
        agg.stats.outcomes.inc("skipped-too-big-to-trace");
        return false;
    }
    for dedup in [true, false] {
        vh::set_tracing(true);
        let out = gl::compile(src, dedup, false);
        let snaps = vh::take_snapshots();
        vh::set_tracing(false);
        let prg = match out {
            CompileOutcome::Ok(p) => p,
            _ => return false,
        };
        let circ = gl::ssa(&prg).clone();
        let Some(snap) = snaps.last() else {
            ctx.inconclusive("hook H5 produced no snapshot for a compilation");
            return false;
        };
        let n_in: usize = circ.input_gates.iter().sum();
        for bi in 0..lanes_batches {
            let (inputs, mask) = if n_in <= 12 && (bi as u64) < bits::exhaustive_batches(n_in) {
                (bits::exhaustive_batch(n_in, bi as u64), mask_for(n_in))
            } else {
                (random_input_words(rng, n_in), !0u64)
            };
            if let Err(e) = trace::check_snapshot(snap, &circ, &inputs, mask, &mut agg.stats, check_panic_events) {
                ctx.violation(
                    &format!("traced compilation (dedup={dedup}) of {origin}: {e}"),
                    json!({"kind": "compilation-trace", "origin": origin, "program": src, "dedup": dedup, "problem": e}),
                );
                return true;
            }
        }
        agg.builds += 1;
        circuits.push(circ);
    }
    // (c) on/off differential on observable outputs
    let (on, off) = (&circuits[0], &circuits[1]);
    if on.input_gates != off.input_gates || on.output_gates.len() != off.output_gates.len() {
        ctx.violation(
            &format!("dedup on/off give different circuit shapes for {origin}"),
            json!({"kind": "on-off-shape", "program": src}),
        );
        return true;
    }
    let n_in: usize = on.input_gates.iter().sum();
    for _ in 0..lanes_batches {
        let inputs = random_input_words(rng, n_in);
        let (a, b) = match (bits::eval_ssa(on, &inputs), bits::eval_ssa(off, &inputs)) {
            (Ok(a), Ok(b)) => (a, b),
            (a, b) => {
                ctx.violation(
                    &format!("compiled circuit of {origin} cannot be evaluated: {:?} {:?}", a.err(), b.err()),
                    json!({"kind": "on-off-eval", "program": src}),
                );
                return true;
            }
        };
        let pan = a[0];
        let mut diff = pan ^ b[0];
        for k in 1..gl::PANIC_BITS {
            diff |= (a[k] ^ b[k]) & pan; // record only observable when panicked
        }
        for k in gl::PANIC_BITS..a.len() {
            diff |= (a[k] ^ b[k]) & !pan; // value only observable when not panicked
        }
        if diff != 0 {
            let l = diff.trailing_zeros() as usize;
            ctx.violation(
                &format!("dedup on/off circuits of {origin} differ on an input"),
                json!({"kind": "on-off-differential", "program": src, "input_bits": bits::lane(&inputs, l).iter().map(|b| *b as u8).collect::<Vec<_>>(),
                       "on": bits::lane(&a, l).iter().map(|b| *b as u8).collect::<Vec<_>>(), "off": bits::lane(&b, l).iter().map(|b| *b as u8).collect::<Vec<_>>()}),
            );
            return true;
        }
    }
    agg.histories += 1;
    agg.distinct.insert(crate::util::fnv(src.as_bytes()));
    true
}

pub fn run(ctx: &Ctx) -> i32 {
    let with_panic = true;
    let mut total = Agg::default();
    let mut exhaustive_info = Map::new();

    // (a1) exhaustive enumeration
    let all6 = [P::Xor, P::And, P::Not, P::Or, P::Eq, P::Mux];
    let xan = [P::Xor, P::And, P::Not];
    let mut plans: Vec<(&str, usize, &[P], usize)> = vec![
        ("len<=3 over {xor,and,not,or,eq,mux}, 2 inputs", 2, &all6, 3),
        ("len<=4 over {xor,and,not}, 2 inputs", 2, &xan, 4),
    ];
    if ctx.tier == Tier::Thorough {
        plans.push(("len<=4 over {xor,and,not}, 3 inputs", 3, &xan, 4));
        plans.push(("len<=3 over {xor,and,not,or,eq,mux}, 3 inputs", 3, &all6, 3));
        plans.push(("len<=5 over {xor,and,not}, 2 inputs", 2, &xan, 5));
    }
    for (name, n_in, ops, len) in plans {
        for cache in [true, false] {
            let t0 = ctx.elapsed();
            let agg = enumerate(ctx, n_in, ops, len, cache);
            exhaustive_info.insert(
                format!("{name}, cache_gates={cache}"),
                json!({"histories": agg.histories, "requests": agg.requests, "builds": agg.builds, "complete": !ctx.stop.load(std::sync::atomic::Ordering::Relaxed), "wall_s": ctx.elapsed() - t0}),
            );
            total.merge(agg);
        }
    }
    let enumerated = total.histories;

    // (a2) random long histories: a fixed share of the budget *after* the enumerations (which always
    // run to completion), so that the thorough tier does not starve the phases below
    let t_enum = ctx.elapsed();
    let phase = ctx.tier.pick(ctx.budget_s * 0.55, ctx.budget_s * 0.3);
    let rand_budget = ctx.tier.pick(phase, t_enum + phase);
    let compile_deadline = ctx.tier.pick(ctx.budget_s, t_enum + 2.0 * phase);
    let results = par(WORKERS, |w| {
        vh::set_tracing(true);
        let mut agg = Agg::default();
        let mut rng = Rng::derive(ctx.seed, 0x4000 + w as u64);
        let mut i = 0u64;
        while ctx.elapsed() < rand_budget && !ctx.stop.load(std::sync::atomic::Ordering::Relaxed) {
            random_history(ctx, &mut rng, i % 2 == 0, with_panic, &mut agg);
            i += 1;
        }
        vh::set_tracing(false);
        agg
    });
    let mut random_hist = 0;
    for r in results {
        random_hist += r.histories;
        total.merge(r);
    }

    // (b)+(c) real compilations
    let mut programs: Vec<(String, String)> = corpus::load();
    programs.extend(op_programs().into_iter().enumerate().map(|(i, p)| (format!("op-program-{i}"), p)));
    let next = std::sync::atomic::AtomicUsize::new(0);
    let compiled = Mutex::new(0u64);
    let results = par(WORKERS, |w| {
        let mut agg = Agg::default();
        let mut rng = Rng::derive(ctx.seed, 0x5000 + w as u64);
        loop {
            let i = next.fetch_add(1, std::sync::atomic::Ordering::SeqCst);
            if i >= programs.len() || ctx.elapsed() > compile_deadline || ctx.stop.load(std::sync::atomic::Ordering::Relaxed) {
                break;
            }
            let (origin, src) = &programs[i];
            if check_compilation(ctx, src, origin, &mut rng, &mut agg, ctx.tier.pick(2, 16), with_panic) {
                *compiled.lock().unwrap() += 1;
            }
        }
        agg
    });
    for r in results {
        total.merge(r);
    }
    let compiled = *compiled.lock().unwrap();

    let mut cov = Map::new();
    cov.insert("evaluations".into(), json!(total.histories));
    cov.insert("distinct_nontrivial".into(), json!(enumerated + total.distinct.len() as u64));
    cov.insert("rule".into(), json!("a case is a request history (enumerated: distinct by construction; random: distinct by hash of the request log) or a traced real compilation (distinct by source hash); every request event of every case is checked against the literal XOR/AND of its operands' functions computed from the raw builder gates over the complete truth table (<= 6 inputs) or sampled lanes (compilations)"));
    cov.insert("histories_enumerated".into(), json!(enumerated));
    cov.insert("histories_random".into(), json!(random_hist));
    cov.insert("compilations_traced_and_on_off_compared".into(), json!(compiled));
    cov.insert("top_level_requests".into(), json!(total.requests));
    cov.insert("request_events_checked".into(), json!(total.stats.req_events));
    cov.insert("panic_record_events_checked".into(), json!(total.stats.panic_events));
    cov.insert("builds_checked".into(), json!(total.builds));
    cov.insert("enumerations".into(), Value::Object(exhaustive_info));
    cov.insert("request_outcome_classes".into(), total.stats.outcomes.to_json());
    cov.insert("request_outcome_classes_distinct".into(), json!(total.stats.outcomes.0.len()));
    cov.insert("exhaustive".into(), json!(false));
    cov.insert("samples".into(), json!(total.samples));
    if total.stats.req_events == 0 {
        ctx.inconclusive("hook H2 recorded no request events");
    }
    ctx.finish(
        cov,
        vec![
            "ground truth = the builder's raw XOR/AND gate list (each raw gate is literal by construction)".into(),
            "literal meaning of a composite request = composition of the primitive requests it issues, each checked individually".into(),
        ],
        1000,
    )
}

#[allow(unused)]
fn _c(_: Counts) {}
