//! C08 — match exhaustiveness verdicts are exact and the first matching arm decides.

use crate::bits;
use crate::gl::{self, CompileOutcome};
use crate::ints::{self, IntTy};
use crate::model::exec;
use crate::model::ty::{self, Defs, EnumDef, StructDef, Ty, Val};
use crate::rng::Rng;
use crate::util::{catch, par, Counts, Ctx, WORKERS};
use garble_lang::ast::{Pattern, PatternEnum, Type};
use garble_lang::check::TypeErrorEnum;
use serde_json::{json, Map, Value};
use std::collections::{BTreeSet, HashSet};

#[derive(Clone, Debug)]
enum P {
    Wild,
    Bind(String),
    Bool(bool),
    Int { v: i128, suffix: bool },
    /// inclusive bounds; printed exclusive (`lo..hi+1`) if `excl`
    Range { lo: i128, hi: i128, excl: bool, suffix: bool },
    Tuple(Vec<P>),
    Struct { si: usize, fields: Vec<(usize, P)>, rest: bool },
    Enum { ei: usize, vi: usize, ps: Vec<P> },
    /// a number / range pattern (printed as given) that does not fit the scrutinee's integer type or
    /// carries the suffix of another type: the program must be rejected
    IllTyped(String),
}

fn lit(t: IntTy, v: i128, suffix: bool) -> String {
    if suffix {
        t.lit(v)
    } else {
        v.to_string()
    }
}

fn show(p: &P, t: &Ty, d: &Defs) -> String {
    match (p, t) {
        (P::Wild, _) => "_".into(),
        (P::IllTyped(text), _) => text.clone(),
        (P::Bind(n), _) => n.clone(),
        (P::Bool(b), _) => b.to_string(),
        (P::Int { v, suffix }, Ty::Int(it)) => lit(*it, *v, *suffix),
        (P::Range { lo, hi, excl, suffix }, Ty::Int(it)) => {
            if *excl {
                format!("{}..{}", lit(*it, *lo, *suffix), lit(*it, *hi + 1, *suffix))
            } else {
                format!("{}..={}", lit(*it, *lo, *suffix), lit(*it, *hi, *suffix))
            }
        }
        (P::Tuple(ps), Ty::Tuple(ts)) => format!("({})", ps.iter().zip(ts).map(|(p, t)| show(p, t, d)).collect::<Vec<_>>().join(", ")),
        (P::Struct { si, fields, rest }, _) => {
            let sd = &d.structs[*si];
            let mut parts: Vec<String> = fields.iter().map(|(fi, p)| format!("{}: {}", sd.fields[*fi].0, show(p, &sd.fields[*fi].1, d))).collect();
            if *rest {
                parts.push("..".into());
            }
            format!("{} {{ {} }}", sd.name, parts.join(", "))
        }
        (P::Enum { ei, vi, ps }, _) => {
            let ed = &d.enums[*ei];
            let (vn, pts) = &ed.variants[*vi];
            if pts.is_empty() {
                format!("{}::{}", ed.name, vn)
            } else {
                format!("{}::{}({})", ed.name, vn, ps.iter().zip(pts).map(|(p, t)| show(p, t, d)).collect::<Vec<_>>().join(", "))
            }
        }
        _ => panic!("harness: pattern/type mismatch {p:?} {t:?}"),
    }
}

/// matches + collects bindings
fn matches(p: &P, v: &Val, binds: &mut Vec<(String, Val)>) -> bool {
    match (p, v) {
        (P::Wild, _) => true,
        (P::IllTyped(_), _) => false,
        (P::Bind(n), _) => {
            binds.push((n.clone(), v.clone()));
            true
        }
        (P::Bool(b), Val::Bool(x)) => b == x,
        (P::Int { v: k, .. }, Val::Int(x)) => k == x,
        (P::Range { lo, hi, .. }, Val::Int(x)) => lo <= x && x <= hi,
        (P::Tuple(ps), Val::Tuple(vs)) => ps.iter().zip(vs).all(|(p, v)| matches(p, v, binds)),
        (P::Struct { fields, .. }, Val::Struct(vs)) => fields.iter().all(|(fi, p)| matches(p, &vs[*fi], binds)),
        (P::Enum { vi, ps, .. }, Val::Enum(vv, payload)) => vi == vv && ps.iter().zip(payload).all(|(p, v)| matches(p, v, binds)),
        _ => panic!("harness: pattern {p:?} applied to {v:?}"),
    }
}

fn collect_consts(p: &P, out: &mut BTreeSet<i128>) {
    match p {
        P::Int { v, .. } => {
            out.insert(*v);
        }
        P::Range { lo, hi, .. } => {
            out.insert(*lo);
            out.insert(*hi);
        }
        P::Tuple(ps) | P::Enum { ps, .. } => ps.iter().for_each(|p| collect_consts(p, out)),
        P::Struct { fields, .. } => fields.iter().for_each(|(_, p)| collect_consts(p, out)),
        _ => {}
    }
}

fn collect_consts_garble(p: &Pattern<Type>, out: &mut BTreeSet<i128>) {
    match &p.0 {
        PatternEnum::NumUnsigned(n, _) => {
            out.insert(*n as i128);
        }
        PatternEnum::NumSigned(n, _) => {
            out.insert(*n as i128);
        }
        PatternEnum::UnsignedInclusiveRange(a, b, _) => {
            out.insert(*a as i128);
            out.insert(*b as i128);
        }
        PatternEnum::SignedInclusiveRange(a, b, _) => {
            out.insert(*a as i128);
            out.insert(*b as i128);
        }
        PatternEnum::Tuple(ps) | PatternEnum::EnumTuple(_, _, ps) => ps.iter().for_each(|p| collect_consts_garble(p, out)),
        PatternEnum::Struct(_, fs) | PatternEnum::StructIgnoreRemaining(_, fs) => fs.iter().for_each(|(_, p)| collect_consts_garble(p, out)),
        _ => {}
    }
}

fn matches_garble(p: &Pattern<Type>, v: &Val, t: &Ty, d: &Defs) -> Result<bool, String> {
    Ok(match (&p.0, v, t) {
        (PatternEnum::Identifier(_), _, _) => true,
        (PatternEnum::True, Val::Bool(b), _) => *b,
        (PatternEnum::False, Val::Bool(b), _) => !*b,
        (PatternEnum::NumUnsigned(n, _), Val::Int(x), _) => *n as i128 == *x,
        (PatternEnum::NumSigned(n, _), Val::Int(x), _) => *n as i128 == *x,
        (PatternEnum::UnsignedInclusiveRange(a, b, _), Val::Int(x), _) => (*a as i128) <= *x && *x <= (*b as i128),
        (PatternEnum::SignedInclusiveRange(a, b, _), Val::Int(x), _) => (*a as i128) <= *x && *x <= (*b as i128),
        (PatternEnum::Tuple(ps), Val::Tuple(vs), Ty::Tuple(ts)) if ps.len() == vs.len() => {
            for ((p, v), t) in ps.iter().zip(vs).zip(ts) {
                if !matches_garble(p, v, t, d)? {
                    return Ok(false);
                }
            }
            true
        }
        (PatternEnum::Struct(name, fs) | PatternEnum::StructIgnoreRemaining(name, fs), Val::Struct(vs), Ty::Struct(si)) => {
            let sd = &d.structs[*si];
            if *name != sd.name {
                return Err(format!("witness names struct {name}"));
            }
            for (fname, fp) in fs {
                let k = sd.field_index(fname).ok_or(format!("witness names unknown field {fname}"))?;
                if !matches_garble(fp, &vs[k], &sd.fields[k].1, d)? {
                    return Ok(false);
                }
            }
            true
        }
        (PatternEnum::EnumUnit(en, vn), Val::Enum(vv, _), Ty::Enum(ei)) => {
            let ed = &d.enums[*ei];
            if *en != ed.name {
                return Err(format!("witness names enum {en}"));
            }
            ed.variants.iter().position(|(n, _)| n == vn).ok_or(format!("witness names unknown variant {vn}"))? == *vv
        }
        (PatternEnum::EnumTuple(en, vn, ps), Val::Enum(vv, payload), Ty::Enum(ei)) => {
            let ed = &d.enums[*ei];
            if *en != ed.name {
                return Err(format!("witness names enum {en}"));
            }
            let vi = ed.variants.iter().position(|(n, _)| n == vn).ok_or(format!("witness names unknown variant {vn}"))?;
            if vi != *vv {
                return Ok(false);
            }
            for ((p, v), t) in ps.iter().zip(payload).zip(&ed.variants[vi].1) {
                if !matches_garble(p, v, t, d)? {
                    return Ok(false);
                }
            }
            true
        }
        (pe, v, _) => return Err(format!("witness pattern {pe:?} does not fit a value {v:?}")),
    })
}

/// Representative values: one per elementary region induced by `consts` (per integer leaf),
/// all values of small domains; cartesian product over components. None if the product is too big.
fn reps(t: &Ty, d: &Defs, consts: &BTreeSet<i128>, cap: usize) -> Option<Vec<Val>> {
    Some(match t {
        Ty::Bool => vec![Val::Bool(false), Val::Bool(true)],
        Ty::Int(it) => {
            let mut s: BTreeSet<i128> = BTreeSet::new();
            if it.bits <= 8 && cap >= 256 * 4 {
                // small domain: all values
                return Some((it.min_val()..=it.max_val()).map(Val::Int).collect());
            }
            for c in [it.min_val(), it.max_val(), 0, 1] {
                s.insert(c);
            }
            for c in consts {
                for v in [c - 1, *c, c + 1] {
                    if it.fits(v) {
                        s.insert(v);
                    }
                }
            }
            s.into_iter().filter(|v| it.fits(*v)).map(Val::Int).collect()
        }
        Ty::Tuple(ts) => product(&ts.iter().map(|t| reps(t, d, consts, cap)).collect::<Option<Vec<_>>>()?, cap)?.into_iter().map(Val::Tuple).collect(),
        Ty::Struct(si) => product(&d.structs[*si].fields.iter().map(|(_, t)| reps(t, d, consts, cap)).collect::<Option<Vec<_>>>()?, cap)?.into_iter().map(Val::Struct).collect(),
        Ty::Enum(ei) => {
            let mut out = vec![];
            for (vi, (_, pts)) in d.enums[*ei].variants.iter().enumerate() {
                let comps = pts.iter().map(|t| reps(t, d, consts, cap)).collect::<Option<Vec<_>>>()?;
                for payload in product(&comps, cap)? {
                    out.push(Val::Enum(vi, payload));
                }
                if out.len() > cap {
                    return None;
                }
            }
            out
        }
        // (arrays cannot be inspected by patterns: one representative per element value)
        Ty::Array(et, n) => reps(et, d, &BTreeSet::new(), 4)?.into_iter().take(2).map(|v| Val::Array(vec![v; *n])).collect(),
    })
}

fn product(comps: &[Vec<Val>], cap: usize) -> Option<Vec<Vec<Val>>> {
    let mut out: Vec<Vec<Val>> = vec![vec![]];
    for c in comps {
        if out.len().saturating_mul(c.len()) > cap {
            return None;
        }
        let mut next = Vec::with_capacity(out.len() * c.len());
        for prefix in &out {
            for v in c {
                let mut p = prefix.clone();
                p.push(v.clone());
                next.push(p);
            }
        }
        out = next;
    }
    Some(out)
}

// ---------------------------------------------------------------------------------------------
// generation

struct G<'a> {
    rng: &'a mut Rng,
    d: Defs,
    next: usize,
    ill_typed_allowed: bool,
    has_ill_typed: bool,
}

impl G<'_> {
    fn leaf_ty(&mut self) -> Ty {
        let ints_ = [ints::U8, ints::I8, ints::U16, ints::I16, ints::U32, ints::I32, ints::U64, ints::I64, ints::USIZE];
        match self.rng.weighted(&[3, 5, 5, 2, 2, 1, 2, 1, 2, 1]) {
            0 => Ty::Bool,
            k => Ty::Int(ints_[k - 1]),
        }
    }

    fn gen_ty(&mut self, depth: u32) -> Ty {
        if depth == 0 {
            return self.leaf_ty();
        }
        match self.rng.weighted(&[5, 3, 2, 3]) {
            0 => self.leaf_ty(),
            1 => {
                // (a component is sometimes an array: it cannot be matched on, only bound or ignored,
                // but the columns after it still have to be checked)
                let n = 2 + self.rng.usize_below(2);
                Ty::Tuple(
                    (0..n)
                        .map(|_| {
                            if self.rng.chance(1, 6) {
                                let n = 1 + self.rng.usize_below(2);
                                Ty::Array(Box::new(self.leaf_ty()), n)
                            } else {
                                self.gen_ty(depth - 1)
                            }
                        })
                        .collect(),
                )
            }
            2 => {
                let nf = 1 + self.rng.usize_below(3);
                let names = ["zeta", "alpha", "mid", "beta"];
                let mut order: Vec<usize> = (0..4).collect();
                self.rng.shuffle(&mut order);
                let fields = (0..nf).map(|i| (names[order[i]].to_string(), self.gen_ty(depth - 1))).collect();
                let name = format!("S{}", self.d.structs.len());
                self.d.structs.push(StructDef { name, fields });
                Ty::Struct(self.d.structs.len() - 1)
            }
            _ => {
                let nv = 1 + self.rng.usize_below(5);
                let variants: Vec<(String, Vec<Ty>)> = (0..nv)
                    .map(|i| {
                        let np = self.rng.weighted(&[3, 4, 2]);
                        let payload: Vec<Ty> = (0..np).map(|_| self.gen_ty(depth - 1)).collect();
                        // (the first payload type may be a tuple or an array: parser repaired, FX-C05-7)
                        (format!("V{i}"), payload)
                    })
                    .collect();
                let name = format!("E{}", self.d.enums.len());
                self.d.enums.push(EnumDef { name, variants });
                Ty::Enum(self.d.enums.len() - 1)
            }
        }
    }

    fn bound(&mut self, t: IntTy) -> i128 {
        let c = [t.min_val(), t.min_val() + 1, -1, 0, 1, t.max_val() - 1, t.max_val(), 2, 5, 100, -100, 127, 128, 255, 256];
        let v = if self.rng.chance(4, 5) { *self.rng.pick(&c) } else { ints::random_value(self.rng, t) };
        if t.fits(v) {
            v
        } else {
            self.rng.below(3) as i128
        }
    }

    fn fresh(&mut self) -> String {
        self.next += 1;
        format!("b{}", self.next)
    }

    fn gen_pat(&mut self, t: &Ty, depth: u32) -> P {
        if matches!(t, Ty::Array(..)) {
            return P::Wild;
        }
        let w_wild = if depth == 0 { 3 } else { 2 };
        match self.rng.weighted(&[w_wild, 2, 8]) {
            0 => return P::Wild,
            1 => return P::Bind(self.fresh()),
            _ => {}
        }
        match t {
            Ty::Bool => P::Bool(self.rng.bool()),
            Ty::Int(it) if self.ill_typed_allowed && self.rng.chance(1, 30) => {
                // outside the range of the type (no suffix, so only the value is wrong), or in range but
                // with the suffix of another integer type
                let others = [ints::U8, ints::U16, ints::U32, ints::U64, ints::USIZE, ints::I8, ints::I16, ints::I32, ints::I64];
                let text = match self.rng.below(4) {
                    0 if it.bits < 64 => (it.max_val() + 1 + self.rng.below(3) as i128).to_string(),
                    1 if it.signed && it.bits < 64 => (it.min_val() - 1).to_string(),
                    2 if it.bits < 64 => format!("{}..={}", it.max_val() - 1, it.max_val() + 1),
                    _ => {
                        let o = *self.rng.pick(&others);
                        if o.name() == it.name() {
                            return P::Wild;
                        }
                        o.lit(self.rng.below(100) as i128)
                    }
                };
                self.has_ill_typed = true;
                P::IllTyped(text)
            }
            Ty::Int(it) => {
                if self.rng.chance(2, 5) {
                    let v = self.bound(*it);
                    P::Int { v, suffix: v < 0 || self.rng.chance(3, 4) }
                } else {
                    let (a, b) = (self.bound(*it), self.bound(*it));
                    if self.rng.chance(1, 8) {
                        // a range that denotes no value: `v..v`, or reversed bounds `hi..=lo`; it matches
                        // nothing (the empty exclusive range at the minimum of the type cannot even be
                        // written down as an inclusive range and must be rejected)
                        let suffix = a < 0 || b < 0 || self.rng.chance(3, 4);
                        if a == b || self.rng.bool() {
                            if a == it.min_val() {
                                if self.ill_typed_allowed {
                                    self.has_ill_typed = true;
                                    return P::IllTyped(format!("{}..{}", lit(*it, a, suffix), lit(*it, a, suffix)));
                                }
                                return P::Wild;
                            }
                            return P::Range { lo: a, hi: a - 1, excl: true, suffix };
                        }
                        return P::Range { lo: a.max(b), hi: a.min(b), excl: false, suffix };
                    }
                    let (lo, hi) = (a.min(b), a.max(b));
                    let excl = hi < it.max_val() && self.rng.chance(1, 3);
                    let suffix = lo < 0 || self.rng.chance(3, 4);
                    P::Range { lo, hi, excl, suffix }
                }
            }
            Ty::Tuple(ts) => P::Tuple(ts.iter().map(|t| self.gen_pat(t, depth.saturating_sub(1))).collect()),
            Ty::Struct(si) => {
                let n = self.d.structs[*si].fields.len();
                let mut order: Vec<usize> = (0..n).collect();
                self.rng.shuffle(&mut order);
                let rest = n > 1 && self.rng.chance(1, 3);
                if rest {
                    order.truncate(1 + self.rng.usize_below(n - 1));
                }
                let fields = order
                    .iter()
                    .map(|fi| {
                        let ft = self.d.structs[*si].fields[*fi].1.clone();
                        (*fi, self.gen_pat(&ft, depth.saturating_sub(1)))
                    })
                    .collect();
                P::Struct { si: *si, fields, rest }
            }
            Ty::Enum(ei) => {
                let vi = self.rng.usize_below(self.d.enums[*ei].variants.len());
                let pts = self.d.enums[*ei].variants[vi].1.clone();
                P::Enum { ei: *ei, vi, ps: pts.iter().map(|t| self.gen_pat(t, depth.saturating_sub(1))).collect() }
            }
            Ty::Array(..) => P::Wild,
        }
    }
}

fn defs_text(d: &Defs) -> String {
    let mut s = String::new();
    for sd in &d.structs {
        s += &format!("struct {} {{ {} }}\n", sd.name, sd.fields.iter().map(|(n, t)| format!("{n}: {}", t.show(d))).collect::<Vec<_>>().join(", "));
    }
    for ed in &d.enums {
        s += &format!(
            "enum {} {{ {} }}\n",
            ed.name,
            ed.variants.iter().map(|(n, ts)| if ts.is_empty() { n.clone() } else { format!("{n}({})", ts.iter().map(|t| t.show(d)).collect::<Vec<_>>().join(", ")) }).collect::<Vec<_>>().join(", ")
        );
    }
    s
}

/// The value an arm returns: (arm index, checksum of up to two bound primitive values).
fn arm_body(idx: usize, binds_prim: &[(String, bool)]) -> String {
    let mut e = "0u64".to_string();
    for (k, (name, _is_bool)) in binds_prim.iter().take(2).enumerate() {
        e = format!("({e}) ^ (({name} as u64) << {}u8)", k * 8);
    }
    format!("({}u8, {e})", idx + 1)
}

fn prim_binds(p: &P, t: &Ty, d: &Defs, out: &mut Vec<(String, bool)>) {
    match (p, t) {
        (P::Bind(n), Ty::Bool) => out.push((n.clone(), true)),
        (P::Bind(n), Ty::Int(_)) => out.push((n.clone(), false)),
        (P::Tuple(ps), Ty::Tuple(ts)) => ps.iter().zip(ts).for_each(|(p, t)| prim_binds(p, t, d, out)),
        (P::Struct { si, fields, .. }, _) => fields.iter().for_each(|(fi, p)| prim_binds(p, &d.structs[*si].fields[*fi].1, d, out)),
        (P::Enum { ei, vi, ps }, _) => ps.iter().zip(&d.enums[*ei].variants[*vi].1).for_each(|(p, t)| prim_binds(p, t, d, out)),
        _ => {}
    }
}

fn checksum(binds: &[(String, Val)], wanted: &[(String, bool)], t_of: &dyn Fn(&str) -> Option<IntTy>) -> u64 {
    let mut e = 0u64;
    for (k, (name, _)) in wanted.iter().take(2).enumerate() {
        let v = binds.iter().find(|(n, _)| n == name).map(|(_, v)| v.clone());
        let as_u64 = match v {
            Some(Val::Bool(b)) => b as u64,
            Some(Val::Int(x)) => {
                // `as u64` of the bound integer: sign-extending for signed sources
                let _ = t_of;
                (x as i64) as u64
            }
            _ => 0,
        };
        e ^= as_u64 << (k * 8);
    }
    e
}

#[derive(Default)]
struct St {
    counts: Counts,
    values: u64,
    witnesses: u64,
    distinct: HashSet<u64>,
    samples: Vec<Value>,
}

fn one_case(ctx: &Ctx, rng: &mut Rng, st: &mut St) {
    let mut g = G { rng, d: Defs::default(), next: 0, ill_typed_allowed: true, has_ill_typed: false };
    let depth = g.rng.weighted(&[4, 4, 2, 1]) as u32;
    let t = g.gen_ty(depth);
    if t.bits(&g.d) == 0 {
        return;
    }
    let n_arms = 1 + g.rng.usize_below(8);
    let mut arms: Vec<P> = (0..n_arms).map(|_| g.gen_pat(&t, 3)).collect();
    // bias towards (nearly) exhaustive matches
    if g.rng.chance(1, 3) {
        let p = if g.rng.bool() { P::Wild } else { P::Bind("rest".into()) };
        let pos = g.rng.usize_below(arms.len() + 1);
        arms.insert(pos, p);
    }
    let has_ill_typed = g.has_ill_typed;
    let d = g.d.clone();
    let mut consts = BTreeSet::new();
    arms.iter().for_each(|p| collect_consts(p, &mut consts));
    // in a quarter of the tuple cases one primitive component of the scrutinee is a constant of the
    // program, `match (x.0, 7u8, x.2)`: the arms see a component whose value is known at compile time
    // (the exhaustiveness verdict is about the type, the results are those for the values with that
    // component)
    let fixed: Option<(usize, Val)> = match &t {
        Ty::Tuple(ts) if ts.len() >= 2 && g.rng.chance(1, 4) => {
            let k = g.rng.usize_below(ts.len());
            if matches!(ts[k], Ty::Bool | Ty::Int(_)) {
                reps(&ts[k], &d, &consts, 1000).filter(|r| !r.is_empty()).map(|r| (k, g.rng.pick(&r).clone()))
            } else {
                None
            }
        }
        _ => None,
    };
    let scrut = match (&fixed, &t) {
        (Some((k, c)), Ty::Tuple(ts)) => {
            st.counts.inc("scrutinee with a constant component");
            format!("({})", (0..ts.len()).map(|i| if i == *k { ty::val_text(c, &ts[i], &d) } else { format!("x.{i}") }).collect::<Vec<_>>().join(", "))
        }
        _ => "x".to_string(),
    };
    let mut src = defs_text(&d);
    src += &format!("pub fn main(x: {}) -> (u8, u64) {{\n    match {scrut} {{\n", t.show(&d));
    let mut wanted: Vec<Vec<(String, bool)>> = vec![];
    for (i, p) in arms.iter().enumerate() {
        let mut pb = vec![];
        prim_binds(p, &t, &d, &mut pb);
        src += &format!("        {} => {},\n", show(p, &t, &d), arm_body(i, &pb));
        wanted.push(pb);
    }
    src += "    }\n}\n";
    let type_kind = match &t {
        Ty::Bool => "bool",
        Ty::Int(it) => it.name(),
        Ty::Tuple(_) => "tuple",
        Ty::Struct(_) => "struct",
        Ty::Enum(_) => "enum",
        Ty::Array(..) => "array",
    };
    // oracle
    let cap = 60_000usize;
    let Some(values) = reps(&t, &d, &consts, cap) else {
        st.counts.inc("skipped: representative product too large");
        return;
    };
    let first_match = |v: &Val| -> Option<(usize, Vec<(String, Val)>)> {
        for (i, p) in arms.iter().enumerate() {
            let mut b = vec![];
            if matches(p, v, &mut b) {
                return Some((i, b));
            }
        }
        None
    };
    let unmatched: Option<&Val> = values.iter().find(|v| first_match(v).is_none());
    let oracle_exhaustive = unmatched.is_none();
    let r = catch(|| garble_lang::check(&src));
    let case = json!({"program": src});
    st.distinct.insert(crate::util::fnv(src.as_bytes()));
    if has_ill_typed {
        // a number pattern that does not fit the scrutinee type / has another type: static error
        match r {
            Err(p) => ctx.violation(&format!("type checker panicked on a match with an ill-typed number pattern: {p}"), case),
            Ok(Ok(_)) => ctx.violation("a match with a number pattern that does not fit (or has another type than) the matched integer type is accepted", case),
            Ok(Err(_)) => st.counts.inc(&format!("{type_kind}: ill-typed number pattern rejected")),
        }
        return;
    }
    match r {
        Err(p) => {
            st.counts.inc(&format!("{type_kind}: checker crashed"));
            ctx.violation(&format!("type checker panicked on a match over {type_kind}: {p}"), case);
        }
        Ok(Ok(_)) => {
            st.counts.inc(&format!("{type_kind}: accepted, oracle {}", if oracle_exhaustive { "exhaustive" } else { "NOT exhaustive" }));
            if let Some(v) = unmatched {
                ctx.violation(
                    &format!("match over {type_kind} accepted although no arm matches {}", ty::val_text(v, &t, &d)),
                    json!({"program": src, "unmatched_value": ty::val_text(v, &t, &d)}),
                );
                return;
            }
            // evaluate: first matching arm with its bindings
            for dedup in [true, false] {
                let prg = match gl::compile(&src, dedup, false) {
                    CompileOutcome::Ok(p) => p,
                    CompileOutcome::Rejected(k, m) => {
                        ctx.violation(&format!("match program passes check() but compile rejects it ({k})"), json!({"program": src, "message": m}));
                        return;
                    }
                    CompileOutcome::Crashed(m) => {
                        ctx.violation(&format!("compiler crashed on an accepted match: {m}"), case.clone());
                        return;
                    }
                };
                let circ = gl::ssa(&prg);
                let ret = Ty::Tuple(vec![Ty::Int(ints::U8), Ty::Int(ints::U64)]);
                let mut vals: Vec<&Val> = values.iter().collect();
                if vals.len() > 4096 {
                    // sample (the exhaustiveness verdict above used all of them)
                    let step = vals.len() / 4096 + 1;
                    vals = vals.into_iter().step_by(step).collect();
                }
                for chunk in vals.chunks(64) {
                    let encs: Vec<Vec<bool>> = chunk.iter().map(|v| ty::encode_vec(v, &t, &d)).collect();
                    let words = bits::pack_lanes(&encs);
                    let out = match bits::eval_ssa(circ, &words) {
                        Ok(o) => o,
                        Err(e) => {
                            ctx.violation(&format!("compiled match cannot be evaluated: {e}"), case.clone());
                            return;
                        }
                    };
                    for (l, v) in chunk.iter().enumerate() {
                        st.values += 1;
                        let seen: Val = match &fixed {
                            Some((k, c)) => {
                                let mut w = (**v).clone();
                                w.elems_mut()[*k] = c.clone();
                                w
                            }
                            None => (**v).clone(),
                        };
                        let Some((idx, binds)) = first_match(&seen) else { continue };
                        let want = Val::Tuple(vec![Val::Int(idx as i128 + 1), Val::Int(checksum(&binds, &wanted[idx], &|_| None) as i128)]);
                        let obs = exec::observe(&out, l, &ret, &d);
                        let ok = matches!(&obs, exec::Observed::Value(Some(o), _) if *o == want);
                        if !ok {
                            ctx.violation(
                                &format!("match over {type_kind}: wrong arm / bindings for {} (dedup={dedup})", ty::val_text(v, &t, &d)),
                                json!({"program": src, "value": ty::val_text(v, &t, &d), "expected": ty::val_text(&want, &ret, &d), "observed": exec::describe_observed(&obs, &ret, &d), "dedup": dedup}),
                            );
                            return;
                        }
                    }
                }
            }
            if st.samples.len() < 2 && arms.len() >= 3 && depth >= 1 {
                st.samples.push(json!({"program": src, "verdict": "accepted", "representative_values_evaluated": values.len()}));
            }
        }
        Ok(Err(e)) => {
            // collect witnesses; any other error kind means the generator produced something else
            let mut witnesses: Vec<Pattern<Type>> = vec![];
            let mut other: Vec<String> = vec![];
            match &e {
                garble_lang::Error::CompileTimeError(garble_lang::CompileTimeError::TypeError(errs)) => {
                    for te in errs {
                        match &*te.0 {
                            TypeErrorEnum::PatternsAreNotExhaustive(ws) => {
                                for w in ws {
                                    if w.len() == 1 {
                                        witnesses.push(w[0].clone());
                                    } else {
                                        other.push(format!("witness stack of length {}", w.len()));
                                    }
                                }
                            }
                            o => other.push(format!("{o:?}")),
                        }
                    }
                }
                o => other.push(format!("{}", gl::error_kind(o))),
            }
            if !other.is_empty() {
                // out-of-range literal patterns etc. may legitimately be rejected (leniency 5)
                st.counts.inc(&format!("{type_kind}: rejected for another reason"));
                if st.counts.get("other-rejection-samples") < 3 {
                    st.counts.inc("other-rejection-samples");
                    st.samples.push(json!({"program": src, "verdict": "rejected for another reason", "errors": other}));
                }
                return;
            }
            st.counts.inc(&format!("{type_kind}: rejected as non-exhaustive, oracle {}", if oracle_exhaustive { "EXHAUSTIVE" } else { "not exhaustive" }));
            if oracle_exhaustive {
                ctx.violation(
                    &format!("match over {type_kind} rejected as non-exhaustive although every value matches an arm"),
                    json!({"program": src, "reported_missing": witnesses.iter().map(|w| format!("{w}")).collect::<Vec<_>>()}),
                );
                return;
            }
            // every witness denotes >= 1 value and only unmatched values
            let mut c2 = consts.clone();
            witnesses.iter().for_each(|w| collect_consts_garble(w, &mut c2));
            let Some(values2) = reps(&t, &d, &c2, cap) else {
                st.counts.inc("skipped: witness representative product too large");
                return;
            };
            for w in &witnesses {
                st.witnesses += 1;
                let mut denotes = 0u64;
                for v in &values2 {
                    match matches_garble(w, v, &t, &d) {
                        Err(e) => {
                            ctx.violation(&format!("reported missing case is malformed: {e}"), json!({"program": src, "witness": format!("{w}")}));
                            return;
                        }
                        Ok(false) => {}
                        Ok(true) => {
                            denotes += 1;
                            if first_match(v).is_some() {
                                ctx.violation(
                                    &format!("reported missing case {w} covers {} which an arm matches", ty::val_text(v, &t, &d)),
                                    json!({"program": src, "witness": format!("{w}"), "value": ty::val_text(v, &t, &d)}),
                                );
                                return;
                            }
                        }
                    }
                }
                if denotes == 0 {
                    ctx.violation(&format!("reported missing case {w} denotes no value"), json!({"program": src, "witness": format!("{w:?}")}));
                    return;
                }
            }
            if st.samples.len() < 3 && witnesses.len() >= 2 {
                st.samples.push(json!({"program": src, "verdict": "rejected as non-exhaustive", "reported_missing": witnesses.iter().map(|w| format!("{w}")).collect::<Vec<_>>()}));
            }
        }
    }
}

pub fn run(ctx: &Ctx) -> i32 {
    let results = par(WORKERS, |w| {
        let mut rng = Rng::derive(ctx.seed, 0x0800 + w as u64);
        let mut st = St::default();
        let mut n = 0u64;
        while !ctx.out_of_time() {
            for _ in 0..20 {
                one_case(ctx, &mut rng, &mut st);
                n += 1;
            }
        }
        (n, st)
    });
    let mut n = 0;
    let mut t = St::default();
    for (k, s) in results {
        n += k;
        t.counts.merge(&s.counts);
        t.values += s.values;
        t.witnesses += s.witnesses;
        t.distinct.extend(s.distinct);
        if t.samples.len() < 5 {
            t.samples.extend(s.samples.into_iter().take(2));
        }
    }
    let mut cov = Map::new();
    cov.insert("evaluations".into(), json!(n));
    cov.insert("distinct_nontrivial".into(), json!(t.distinct.len()));
    cov.insert("rule".into(), json!("a case is a generated arm list over a generated scrutinee type (distinct by source hash); the oracle decides exhaustiveness by evaluating its own matcher on all values (bool, 8-bit, enums) or one representative per elementary region induced by all bounds in the arms (and in the reported witnesses); accepted matches are compiled (dedup on/off) and evaluated on the representatives: result must be the first matching arm's index and a checksum of its bindings"));
    cov.insert("verdict_pairs_by_scrutinee_type".into(), t.counts.to_json());
    cov.insert("scrutinee_values_evaluated_through_circuits".into(), json!(t.values));
    cov.insert("reported_missing_cases_checked".into(), json!(t.witnesses));
    cov.insert("exhaustive".into(), json!(false));
    cov.insert("samples".into(), json!(t.samples));
    ctx.finish(cov, vec!["a literal pattern that is not representable in the scrutinee type matches no value (the program may also be rejected)".into()], 500)
}
