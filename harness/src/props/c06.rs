//! C06 — compilation is deterministic: same source and constants, identical circuit.
//!
//! Every program is compiled N times in this process and N times in each of M fresh worker
//! processes (fresh SipHash keys); all outcomes (structural hash of the circuit, or the error /
//! crash) must be identical. A canary HashMap next to every compilation records that hash
//! iteration orders really varied.

use crate::corpus;
use crate::gl::{self, CompileOutcome};
use crate::util::{fnv, par, Counts, Ctx, WORKERS};
use garble_lang::circuit::Gate;
use garble_lang::literal::Literal;
use garble_lang::token::UnsignedNumType;
use serde_json::{json, Map, Value};
use std::collections::{BTreeMap, HashMap, HashSet};
use std::io::Write;

pub struct Prog {
    pub origin: String,
    pub src: String,
    /// constants: party -> name -> (value, type name)
    pub consts: Vec<(String, String, u64, &'static str)>,
}

fn garble_consts(p: &Prog) -> garble_lang::GarbleConsts {
    let mut m: garble_lang::GarbleConsts = HashMap::new();
    for (party, name, v, ty) in &p.consts {
        let lit = match *ty {
            "usize" => Literal::NumUnsigned(*v, UnsignedNumType::Usize),
            "u8" => Literal::NumUnsigned(*v, UnsignedNumType::U8),
            "u16" => Literal::NumUnsigned(*v, UnsignedNumType::U16),
            "u32" => Literal::NumUnsigned(*v, UnsignedNumType::U32),
            "u64" => Literal::NumUnsigned(*v, UnsignedNumType::U64),
            "i32" => Literal::NumSigned(*v as i64, garble_lang::token::SignedNumType::I32),
            "bool" => if *v != 0 { Literal::True } else { Literal::False },
            _ => Literal::NumUnsigned(*v, UnsignedNumType::U32),
        };
        m.entry(party.clone()).or_default().insert(name.clone(), lit);
    }
    m
}

/// Outcome signature of one compilation.
pub fn outcome_sig(p: &Prog, dedup: bool) -> String {
    match gl::compile_consts(&p.src, dedup, false, garble_consts(p)) {
        CompileOutcome::Ok(prg) => {
            let c = gl::ssa(&prg);
            let mut h: u64 = 0xcbf29ce484222325;
            let mut feed = |x: u64| {
                for b in x.to_le_bytes() {
                    h ^= b as u64;
                    h = h.wrapping_mul(0x100000001b3);
                }
            };
            for i in &c.input_gates {
                feed(*i as u64);
            }
            feed(0xFFFF_FFFF_FFFF_FFFF);
            for g in &c.gates {
                match g {
                    Gate::Xor(a, b) => {
                        feed(1);
                        feed(*a as u64);
                        feed(*b as u64)
                    }
                    Gate::And(a, b) => {
                        feed(2);
                        feed(*a as u64);
                        feed(*b as u64)
                    }
                    Gate::Not(a) => {
                        feed(3);
                        feed(*a as u64)
                    }
                }
            }
            feed(0xFFFF_FFFF_FFFF_FFFE);
            for o in &c.output_gates {
                feed(*o as u64);
            }
            // the register form (the compiler's second output format) has to be identical as well
            let reg = match crate::util::catch(|| garble_lang::register_circuit::Circuit::from(c)) {
                Ok(r) => format!("{:016x}", crate::util::fnv(format!("{r:?}").as_bytes())),
                Err(_) => "conversion-panicked".to_string(),
            };
            // ... and so has the Bristol export (the compiler's third output format)
            let bristol = bristol_sig(c);
            format!("ok:{}in/{}gates/{}out:{:016x}/register:{reg}/bristol:{bristol}", c.input_gates.len(), c.gates.len(), c.output_gates.len(), h)
        }
        CompileOutcome::Rejected(kind, _msg) => format!("rejected:{kind}"),
        CompileOutcome::Crashed(m) => format!("crashed:{}", crate::util::panic_signature(&m)).replace(' ', "_"),
    }
}

/// Hash of the Bristol fashion text that the circuit is exported to (or why there is none).
fn bristol_sig(c: &garble_lang::circuit::Circuit) -> String {
    static NEXT: std::sync::atomic::AtomicU64 = std::sync::atomic::AtomicU64::new(0);
    if c.gates.len() > 200_000 {
        return "skipped-large".into();
    }
    let dir = crate::util::verif_dir().join(".work").join(format!("c06-{}", std::process::id()));
    let _ = std::fs::create_dir_all(&dir);
    let path = dir.join(format!("{}.txt", NEXT.fetch_add(1, std::sync::atomic::Ordering::Relaxed)));
    let r = match crate::util::catch(|| c.format_as_bristol(&path)) {
        Ok(Ok(())) => match std::fs::read(&path) {
            Ok(text) => format!("{:016x}", crate::util::fnv(&text)),
            Err(_) => "harness-could-not-read-the-export".to_string(),
        },
        Ok(Err(e)) => format!("refused:{e:?}").replace(' ', "_"),
        Err(_) => "export-panicked".to_string(),
    };
    let _ = std::fs::remove_file(&path);
    r
}

fn canary_order() -> u64 {
    let mut m: HashMap<u32, u32> = HashMap::new();
    for k in [3u32, 14, 15, 92, 65, 35, 89, 79] {
        m.insert(k, k);
    }
    let mut h = 0u64;
    for (k, _) in m.iter() {
        h = h.wrapping_mul(131).wrapping_add(*k as u64);
    }
    h
}

/// Programs built to expose order dependence: chains of constants, repeated failing
/// sub-expressions in both branches and afterwards, many variables merged by if/match.
fn crafted_programs() -> Vec<Prog> {
    let mut v = vec![];
    for n in 2..=7usize {
        // const chain: each constant refers to the previous one
        let mut src = String::new();
        src += "const C0: usize = PARTY_0::N;\n";
        for i in 1..n {
            src += &format!("const C{i}: usize = C{} + 1usize;\n", i - 1);
        }
        src += &format!("const M: usize = max(C0, C{});\n", n - 1);
        src += &format!(
            "pub fn main(x: [u8; C{}], y: u8) -> u8 {{\n let mut s = y;\n for e in x {{ s = s + e; }}\n let z = [0u8; M];\n s + z[0]\n}}\n",
            n - 1
        );
        v.push(Prog { origin: format!("crafted-const-chain-{n}"), src: src.clone(), consts: vec![("PARTY_0".into(), "N".into(), 1 + n as u64 % 3, "usize")] });
        // the same chain with all definitions on one line (their source positions differ by column only)
        v.push(Prog { origin: format!("crafted-const-chain-one-line-{n}"), src: src.replace(";\nconst", "; const"), consts: vec![("PARTY_0".into(), "N".into(), 1 + n as u64 % 3, "usize")] });
        // alias chain: each constant is just another name for the previous one
        let mut src = String::new();
        src += "const A0: usize = PARTY_0::N;\n";
        for i in 1..n {
            src += &format!("const A{i}: usize = A{};\n", i - 1);
        }
        src += &format!("const B: usize = A{} + 1usize;\n", n - 1);
        src += &format!("pub fn main(x: [u8; A{}], y: [u8; B]) -> usize {{ let mut s = A0; for e in x {{ s = s + (e as usize); }} for e in y {{ s = s + (e as usize) + A{}; }} s }}\n", n - 1, n - 1);
        v.push(Prog { origin: format!("crafted-const-alias-{n}"), src, consts: vec![("PARTY_0".into(), "N".into(), 2, "usize")] });
        // several non-usize constants referring to each other
        let mut src = String::new();
        src += "const A: u16 = PARTY_0::A;\nconst B: u16 = PARTY_1::B;\n";
        for i in 0..n {
            let prev = if i == 0 { "A".to_string() } else { format!("D{}", i - 1) };
            src += &format!("const D{i}: u16 = max({prev}, B) + 1u16;\n");
        }
        src += &format!("pub fn main(x: u16) -> u16 {{ x + D{} + A }}\n", n - 1);
        v.push(Prog {
            origin: format!("crafted-const-u16-{n}"),
            src,
            consts: vec![("PARTY_0".into(), "A".into(), 7, "u16"), ("PARTY_1".into(), "B".into(), 9, "u16")],
        });
        // panic sharing + many variables merged
        let vars: Vec<String> = (0..n + 2).map(|i| format!("v{i}")).collect();
        let mut src = String::from("pub fn main(a: u8, b: u8, c: bool) -> u8 {\n");
        for (i, x) in vars.iter().enumerate() {
            src += &format!(" let mut {x} = a + {}u8;\n", i);
        }
        src += " if c {\n";
        for x in vars.iter() {
            src += &format!("  {x} = {x} + (a - b);\n");
        }
        src += " } else {\n";
        for x in vars.iter().rev() {
            src += &format!("  {x} = {x} * b + (a - b);\n");
        }
        src += " }\n let r = match a {\n  0u8 => v0 + (a - b),\n  1u8..=9u8 => v1 / b,\n  _ => v2 % b,\n };\n";
        src += &format!(" r + {} + (a - b)\n}}\n", vars.join(" + "));
        v.push(Prog { origin: format!("crafted-panic-sharing-{n}"), src, consts: vec![] });
        // structs / enums / several functions (fn_defs, struct_defs, enum_defs are HashMaps)
        let mut src = String::new();
        for i in 0..n {
            src += &format!("struct S{i} {{ a: u8, b: u16, c{i}: bool }}\nenum E{i} {{ A, B(u8), C(u16, bool) }}\n");
            src += &format!("fn f{i}(s: S{i}, e: E{i}) -> u16 {{ match e {{ E{i}::A => s.b, E{i}::B(x) => (x as u16) + s.b, E{i}::C(y, z) => if z {{ y }} else {{ s.b - y }} }} }}\n");
        }
        src += "pub fn main(x: u8, y: u16, z: bool) -> u16 {\n let mut acc = y;\n";
        for i in 0..n {
            src += &format!(" acc = acc + f{i}(S{i} {{ a: x, b: y, c{i}: z }}, if z {{ E{i}::B(x) }} else {{ E{i}::C(y, z) }});\n");
        }
        src += " acc\n}\n";
        v.push(Prog { origin: format!("crafted-defs-{n}"), src, consts: vec![] });
    }
    // the same failure conditions checked on both paths of a branch, in different orders (the panic
    // caches of the two paths hold the same keys with different histories when they are merged)
    let pool = ["a / p", "b / q", "a + b", "a - q", "arr[i]", "b % p", "a * q", "p - b"];
    for n in 0..24usize {
        let k = 2 + n % 3;
        let picked: Vec<&str> = (0..k).map(|j| pool[(n * 3 + j * 5 + n / 8) % pool.len()]).collect();
        let mut picked_dedup: Vec<&str> = vec![];
        for c in picked {
            if !picked_dedup.contains(&c) {
                picked_dedup.push(c);
            }
        }
        let conds = picked_dedup;
        let rev: Vec<&str> = conds.iter().rev().cloned().collect();
        let mut rot = conds.clone();
        rot.rotate_left(1);
        let one_expr = |cs: &[&str], op: &str| cs.iter().map(|c| format!("({c})")).collect::<Vec<_>>().join(&format!(" {op} "));
        let lets = |cs: &[&str], op: &str, indent: &str| {
            let mut t = String::new();
            for (j, c) in cs.iter().enumerate() {
                t += &format!("{indent}let t{j} = {c};\n");
            }
            t += &format!("{indent}{}\n", (0..cs.len()).map(|j| format!("t{j}")).collect::<Vec<_>>().join(&format!(" {op} ")));
            t
        };
        let head = "pub fn main(c: bool, a: u8, p: u8, b: u8, q: u8, i: usize, arr: [u8; 3]) -> u8 {\n";
        let src = match n % 3 {
            0 => format!("{head}    if c {{\n        {}\n    }} else {{\n{}    }}\n}}\n", one_expr(&conds, "^"), lets(&rev, "&", "        ")),
            1 => format!(
                "{head}    match a {{\n        0u8 => {},\n        1u8 => {{\n{}        }}\n        _ => {},\n    }}\n}}\n",
                one_expr(&conds, "^"),
                lets(&rev, "|", "            "),
                one_expr(&rot, "&")
            ),
            _ => format!("{head}    let r = if c {{ {} }} else {{ {} }};\n    if a == 0u8 {{ r }} else {{ r ^ ({}) }}\n}}\n", one_expr(&conds, "^"), one_expr(&rev, "&"), one_expr(&rot, "|")),
        };
        v.push(Prog { origin: format!("crafted-shared-failures-permuted-{n}"), src, consts: vec![] });
    }
    // the zero tests of divisors are built from the same gates as `b == 0u8`: user expressions re-use
    // gates that were first emitted while the cached panic records of two branches were merged
    for (n, src) in [
        "pub fn main(c: bool, a: u8, b1: u8, b2: u8) -> (u8, bool, bool) {\n    let r = if c { (a / b1) ^ (a / b2) } else { (a / b2) ^ (a / b1) };\n    let p1 = b1 == 0u8;\n    let p2 = b2 == 0u8;\n    let w = p1 | p2;\n    (r, p1 ^ w, w ^ p2)\n}\n",
        "pub fn main(c: bool, a: u8, b0: u8, b1: u8, b2: u8, b3: u8) -> (u8, bool, bool) {\n    let r = if c { (a / b0) ^ (a / b1) ^ (a / b2) ^ (a / b3) } else { (a / b1) ^ (a / b2) ^ (a / b3) };\n    let z1 = ((b0 == 0u8) | (b1 == 0u8)) ^ (b1 == 0u8);\n    let z2 = (((b0 == 0u8) | (b1 == 0u8)) | (b2 == 0u8)) ^ ((b1 == 0u8) | (b2 == 0u8));\n    (r, z1, z2)\n}\n",
        "pub fn main(c: bool, a: u16, b1: u16, b2: u16, b3: u16) -> (u16, bool, bool, bool) {\n    let r = match c { true => (a % b1) ^ (a / b2) ^ (a % b3), false => (a / b3) ^ (a % b2) ^ (a / b1) };\n    let p1 = b1 == 0u16;\n    let p2 = b2 == 0u16;\n    let p3 = b3 == 0u16;\n    (r, p1 | p2, (p1 | p2) | p3, p3 | p2)\n}\n",
    ]
    .iter()
    .enumerate()
    {
        v.push(Prog { origin: format!("crafted-panic-cache-gates-reused-{n}"), src: src.to_string(), consts: vec![] });
    }
    // several variables assigned inside one operand / arm / condition: the merges of the environment
    // must not be emitted in the hash order of a change set
    for (n, src) in [
        "pub fn main(a: bool, b: u8, c: u8) -> (bool, u8, u8, u8) {\n    let mut x = b;\n    let mut y = c;\n    let mut z = 1u8;\n    let r = a && ({ x = x + c; y = y ^ b; z = z + 1u8; x > y });\n    (r, x, y, z)\n}\n",
        "pub fn main(a: bool, b: u8, c: u8) -> (bool, u8, u8, u8, u8) {\n    let mut x = b;\n    let mut y = c;\n    let mut z = 1u8;\n    let mut w = 2u8;\n    let r = a || ({ w = w ^ b; x = x ^ c; z = z ^ x; y = y + 1u8; x == y });\n    (r, x, y, z, w)\n}\n",
        "pub fn main(a: u8, b: u8, c: u8) -> (u8, u8, u8, u8) {\n    let mut x = b;\n    let mut y = c;\n    let mut z = 1u8;\n    let r = match a { 0u8 => { x = x + 1u8; y = y + 2u8; z = z + 3u8; x }, 1u8..=9u8 => { z = z ^ a; y = y ^ a; x = x ^ a; y }, _ => { y = 0u8; x = 0u8; z }, };\n    (r, x, y, z)\n}\n",
        "pub fn main(a: bool, b: u8, c: u8) -> (u8, u8, u8) {\n    let mut x = b;\n    let mut y = c;\n    let mut z = 1u8;\n    if ({ x = x ^ 1u8; y = y ^ 2u8; z = z ^ 3u8; a }) { x = y; y = z; } else { z = x; }\n    (x, y, z)\n}\n",
    ]
    .iter()
    .enumerate()
    {
        v.push(Prog { origin: format!("crafted-several-assignments-in-one-operand-{n}"), src: src.to_string(), consts: vec![] });
    }
    // results that hold the same computed values several times: the exporter de-aliases repeated
    // output wires, which must not happen in the hash order of a map of wires
    for (n, src) in [
        "pub fn main(a: u8, b: u8) -> [u8; 4] {\n    let s = a + b;\n    let t = a ^ b;\n    [s, t, s, t]\n}\n",
        "pub fn main(a: bool, b: bool, c: bool) -> (bool, bool, bool, bool, bool, bool) {\n    let s = a & b;\n    let t = b ^ c;\n    let u = !(a | c);\n    (s, t, u, t, s, u)\n}\n",
        "pub fn main(a: u16, b: u16) -> ([u16; 2], (u16, u16), u16) {\n    let s = a * b;\n    let t = a - b;\n    let u = s / (t | 1u16);\n    ([u, s], (t, u), s)\n}\n",
        "struct P { x: u8, y: u8 }\npub fn main(a: u8, b: u8) -> [P; 3] {\n    let p = P { x: a & b, y: a | b };\n    let q = P { x: p.y, y: p.x };\n    [p, q, P { x: a ^ b, y: a ^ b }]\n}\n",
    ]
    .iter()
    .enumerate()
    {
        v.push(Prog { origin: format!("crafted-repeated-output-values-{n}"), src: src.to_string(), consts: vec![] });
    }
    // programs that must be refused whatever the order in which the checker visits the functions
    for (n, src) in [
        "pub fn offset() -> u8 { 3u8 }\npub fn main(x: u8) -> u8 { x + offset() }\n",
        "pub fn offset() -> u8 { 3u8 }\nfn via(x: u8) -> u8 { x + offset() }\npub fn main(x: u8) -> u8 { via(x) }\n",
        "pub fn a() -> u8 { 1u8 }\npub fn b(x: u8) -> u8 { x + a() }\npub fn c(x: u8) -> u8 { b(x) + a() }\npub fn main(x: u8) -> u8 { c(x) }\n",
        "pub fn helper(x: u8) -> u8 { x + true }\npub fn main(x: u8) -> u8 { helper(x) }\n",
        "pub fn a(x: u8) -> u8 { b(x) }\npub fn b(x: u8) -> u8 { a(x) }\npub fn main(x: u8) -> u8 { a(x) }\n",
        "fn unused(x: u8) -> u8 { x }\npub fn other(x: u8) -> u8 { x }\npub fn main(x: u8) -> u8 { other(x) }\n",
        "pub fn p(x: u8) -> u8 { x + y }\npub fn q(x: u8) -> u8 { p(x) }\npub fn main(x: u8) -> u8 { q(x) + p(x) }\n",
        // type cycles that are reached from a definition outside of them
        "struct Node { next: Link }\nstruct Link { node: Node }\nstruct List { head: Node }\npub fn main(x: u8) -> u8 { x }\n",
        "enum Tree { Leaf, Inner(Pair) }\nstruct Pair { l: Tree, r: Tree }\nstruct Forest { a: Tree, b: Pair }\nstruct Wood { f: Forest }\npub fn main(x: u8) -> u8 { x }\n",
        "struct A { b: [B; 2] }\nstruct B { c: (u8, C) }\nenum C { N, Y(A) }\nstruct Outer1 { a: A }\nstruct Outer2 { b: B, o: Outer1 }\nenum Outer3 { V(C, Outer2) }\npub fn main(x: u8) -> u8 { x }\n",
    ]
    .iter()
    .enumerate()
    {
        v.push(Prog { origin: format!("crafted-refusal-{n}"), src: src.to_string(), consts: vec![] });
    }
    // large circuits (size-triggered behaviour of the builder: cache growth, eviction, reallocation)
    v.push(Prog {
        origin: "crafted-large-u64-products".into(),
        src: "pub fn main(a: u64, b: u64, c: u64) -> u64 {\n let p = (a * b) ^ (b * c) ^ (a * c);\n let q = (p / (a | 1u64)) + (p % (b | 1u64));\n (p * q) ^ (q * a) ^ (q * b)\n}\n".into(),
        consts: vec![],
    });
    v.push(Prog {
        origin: "crafted-large-array-sum".into(),
        src: "pub fn main(x: [u32; 20], k: u32) -> u32 {\n let mut s = k;\n for e in x { s = (s * e) ^ (s / (e | 1u32)); }\n s\n}\n".into(),
        consts: vec![],
    });
    // types whose size depends on what they refer to by name (history independence, see `siblings`)
    v.push(Prog {
        origin: "crafted-enum-of-named-types".into(),
        src: "enum Shape { Dot(Point), Pair(Point, Point), None }\nstruct Point { x: u8, y: u16 }\npub fn main(s: Shape, k: u8) -> u16 {\n match s { Shape::Dot(p) => p.y + (p.x as u16), Shape::Pair(p, q) => p.y ^ q.y, Shape::None => k as u16 }\n}\n".into(),
        consts: vec![],
    });
    v.push(Prog {
        origin: "crafted-enum-of-const-sized-array".into(),
        src: "const N: usize = PARTY_0::N;\nenum Msg { Data([u8; N]), Empty }\npub fn main(m: Msg, k: u8) -> u8 {\n match m { Msg::Data(d) => { let mut s = k; for e in d { s = s ^ e; } s }, Msg::Empty => k }\n}\n".into(),
        consts: vec![("PARTY_0".into(), "N".into(), 2, "usize")],
    });
    v
}

pub fn programs() -> Vec<Prog> {
    let mut v = crafted_programs();
    for (origin, src) in corpus::load() {
        // corpus programs with constants get a fixed assignment for every PARTY::NAME they mention
        let mut consts = vec![];
        let toks: Vec<&str> = src.split(|c: char| !(c.is_alphanumeric() || c == '_' || c == ':')).collect();
        for t in toks {
            if let Some((party, name)) = t.split_once("::") {
                if party.chars().all(|c| c.is_ascii_uppercase() || c.is_ascii_digit() || c == '_')
                    && !party.is_empty()
                    && name.chars().all(|c| c.is_ascii_uppercase() || c.is_ascii_digit() || c == '_')
                    && !name.is_empty()
                {
                    consts.push((party.to_string(), name.to_string(), 2u64, "usize"));
                }
            }
        }
        v.push(Prog { origin, src, consts });
    }
    for (i, src) in super::c04_op_programs().into_iter().enumerate() {
        v.push(Prog { origin: format!("op-program-{i}"), src, consts: vec![] });
    }
    v
}

/// Programs that differ from `p` only in things an enum / struct / function refers to by name: other
/// values of the same constants, or another width of a primitive type inside a type definition.
/// Compiling one of them first must not influence the compilation of `p` (history independence).
fn siblings(p: &Prog) -> Vec<Prog> {
    let mut out = vec![];
    if !p.consts.is_empty() {
        let consts = p.consts.iter().map(|(a, b, v, t)| (a.clone(), b.clone(), v + 1, *t)).collect();
        out.push(Prog { origin: format!("{} [other constant values]", p.origin), src: p.src.clone(), consts });
    }
    let toks = super::c07::lex(&p.src);
    let text = |i: usize| &p.src[toks[i].0..toks[i].1];
    let prims = ["bool", "u8", "u16", "u32", "u64", "i8", "i16", "i32", "i64", "usize"];
    let mut sites = vec![];
    let mut i = 0;
    while i < toks.len() {
        if text(i) == "struct" || text(i) == "enum" {
            // up to the matching closing brace
            let mut depth = 0i32;
            let mut j = i;
            while j < toks.len() {
                match text(j) {
                    "{" => depth += 1,
                    "}" => {
                        depth -= 1;
                        if depth == 0 {
                            break;
                        }
                    }
                    t if depth > 0 && prims.contains(&t) => sites.push(j),
                    _ => {}
                }
                j += 1;
            }
            i = j;
        }
        i += 1;
    }
    let n = sites.len();
    for k in [0, n / 2, n.saturating_sub(1)].into_iter().collect::<std::collections::BTreeSet<usize>>() {
        if let Some(&site) = sites.get(k) {
            let with = if text(site) == "u64" { "u8" } else { "u64" };
            let src = format!("{}{}{}", &p.src[..toks[site].0], with, &p.src[toks[site].1..]);
            out.push(Prog { origin: format!("{} [{} -> {with} inside a type definition]", p.origin, text(site)), src, consts: p.consts.clone() });
        }
    }
    out
}

/// Worker process: `gverif worker compile-hash <n_per_process>`: prints one line per program and
/// repetition: "<index> <dedup> <sig> <canary>".
pub fn worker(args: &[String]) -> i32 {
    let n: usize = args.first().and_then(|s| s.parse().ok()).unwrap_or(4);
    let shard: usize = args.get(1).and_then(|s| s.parse().ok()).unwrap_or(0);
    let shards: usize = args.get(2).and_then(|s| s.parse().ok()).unwrap_or(1);
    let progs = programs();
    let out = std::io::stdout();
    let mut out = out.lock();
    for (i, p) in progs.iter().enumerate() {
        if i % shards != shard {
            continue;
        }
        let t0 = std::time::Instant::now();
        for rep in 0..n {
            let dedup = rep % 2 == 0;
            let can = canary_order();
            let sig = outcome_sig(p, dedup);
            let _ = writeln!(out, "{i} {} {sig} {can:x}", dedup as u8);
            if t0.elapsed().as_secs_f64() > 4.0 {
                break;
            }
        }
    }
    remove_work_dir();
    0
}

fn remove_work_dir() {
    let _ = std::fs::remove_dir_all(crate::util::verif_dir().join(".work").join(format!("c06-{}", std::process::id())));
}

pub fn run(ctx: &Ctx) -> i32 {
    let progs = programs();
    let n_in_process = ctx.tier.pick(8usize, 32usize);
    let n_processes = ctx.tier.pick(4usize, 16usize);
    let n_per_process = ctx.tier.pick(4usize, 8usize);
    // outcomes[program][dedup] -> set of signatures
    let mut outcomes: BTreeMap<(usize, u8), BTreeMap<String, u64>> = BTreeMap::new();
    let mut canaries: HashSet<u64> = HashSet::new();
    let mut compilations = 0u64;

    // in-process repetitions
    let results = par(WORKERS, |w| {
        let mut local: Vec<(usize, u8, String, u64)> = vec![];
        for (i, p) in progs.iter().enumerate() {
            if i % WORKERS != w {
                continue;
            }
            let t0 = std::time::Instant::now();
            for rep in 0..n_in_process {
                let dedup = rep % 2 == 0;
                let can = canary_order();
                local.push((i, dedup as u8, outcome_sig(p, dedup), can));
                if t0.elapsed().as_secs_f64() > 4.0 {
                    break;
                }
            }
        }
        local
    });
    for l in results {
        for (i, d, sig, can) in l {
            *outcomes.entry((i, d)).or_default().entry(sig).or_insert(0) += 1;
            canaries.insert(can);
            compilations += 1;
        }
    }
    // history independence: P compiled in a fresh thread vs. P compiled in a fresh thread right after
    // a sibling program (same text of every definition, other sizes behind the names it refers to)
    let history = par(WORKERS, |w| {
        let mut cases = 0u64;
        let mut diffs: Vec<Value> = vec![];
        for (i, p) in progs.iter().enumerate() {
            if i % WORKERS != w || ctx.past(0.8) {
                continue;
            }
            let sibs = siblings(p);
            if sibs.is_empty() {
                continue;
            }
            let fresh = std::thread::scope(|s| std::thread::Builder::new().stack_size(64 << 20).spawn_scoped(s, || outcome_sig(p, true)).unwrap().join());
            let Ok(fresh) = fresh else { continue };
            if !fresh.starts_with("ok") {
                continue;
            }
            for sib in &sibs {
                let after = std::thread::scope(|s| {
                    std::thread::Builder::new()
                        .stack_size(64 << 20)
                        .spawn_scoped(s, || {
                            let _ = outcome_sig(sib, true);
                            outcome_sig(p, true)
                        })
                        .unwrap()
                        .join()
                });
                cases += 1;
                match after {
                    Ok(a) if a == fresh => {}
                    Ok(a) => diffs.push(json!({"origin": p.origin, "program": p.src, "compiled_before": sib.origin, "sibling_program": sib.src, "fresh": fresh, "after_sibling": a})),
                    Err(_) => diffs.push(json!({"origin": p.origin, "program": p.src, "compiled_before": sib.origin, "sibling_program": sib.src, "fresh": fresh, "after_sibling": "thread panicked"})),
                }
            }
        }
        (cases, diffs)
    });
    let mut history_cases = 0u64;
    for (c, diffs) in history {
        history_cases += c;
        for d in diffs {
            ctx.violation(
                &format!("{}: the circuit depends on what was compiled before in the same thread ({})", d["origin"].as_str().unwrap_or(""), d["compiled_before"].as_str().unwrap_or("")),
                d,
            );
        }
    }
    compilations += 3 * history_cases;
    // fresh processes
    let exe = std::env::current_exe().unwrap();
    let mut processes_ok = 0;
    let proc_results = par(n_processes.min(WORKERS), |k| {
        // each process handles all programs (so that every program sees n_processes fresh key sets)
        std::process::Command::new(&exe)
            .args(["worker", "compile-hash", &n_per_process.to_string(), "0", "1"])
            .env("VERIF_PROC", k.to_string())
            .output()
    });
    for r in proc_results {
        match r {
            Ok(o) if o.status.success() => {
                processes_ok += 1;
                for line in String::from_utf8_lossy(&o.stdout).lines() {
                    let parts: Vec<&str> = line.splitn(4, ' ').collect();
                    if parts.len() == 4 {
                        let (Ok(i), Ok(d)) = (parts[0].parse::<usize>(), parts[1].parse::<u8>()) else { continue };
                        // sig may contain spaces? it does not (no spaces in format), canary is last
                        *outcomes.entry((i, d)).or_default().entry(parts[2].to_string()).or_insert(0) += 1;
                        if let Ok(c) = u64::from_str_radix(parts[3], 16) {
                            canaries.insert(c);
                        }
                        compilations += 1;
                    }
                }
            }
            Ok(o) => ctx.inconclusive(&format!("worker process failed: {:?} {}", o.status, String::from_utf8_lossy(&o.stderr).chars().take(300).collect::<String>())),
            Err(e) => ctx.inconclusive(&format!("cannot spawn worker process: {e}")),
        }
    }

    let mut counts = Counts::default();
    let mut samples: Vec<Value> = vec![];
    let mut nontrivial = 0u64;
    for ((i, d), sigs) in &outcomes {
        let p = &progs[*i];
        let kind = sigs.keys().next().map(|s| s.split(':').next().unwrap_or("").to_string()).unwrap_or_default();
        counts.inc(&format!("programs_x_dedup:{kind}"));
        if kind == "ok" {
            nontrivial += 1;
        }
        if sigs.len() > 1 {
            ctx.violation(
                &format!("{} (dedup={}) compiled to {} different outcomes over {} compilations", p.origin, d, sigs.len(), sigs.values().sum::<u64>()),
                json!({"kind": "nondeterminism", "origin": p.origin, "program": p.src, "consts": p.consts.iter().map(|c| format!("{}::{}={}{}", c.0, c.1, c.2, c.3)).collect::<Vec<_>>(), "dedup": d, "outcomes": sigs}),
            );
        } else if samples.len() < 3 && p.origin.starts_with("crafted") && *d == 1 {
            samples.push(json!({"origin": p.origin, "program": p.src, "compilations": sigs.values().sum::<u64>(), "single_outcome": sigs.keys().next()}));
        }
    }
    let mut cov = Map::new();
    cov.insert("evaluations".into(), json!(compilations));
    cov.insert("distinct_nontrivial".into(), json!(nontrivial));
    cov.insert("rule".into(), json!("a case is (program, constants, dedup setting); non-trivial = it compiles to a circuit; each case is compiled repeatedly in this process and in fresh worker processes and all structural hashes (party sizes, gates in order, outputs; the register form; the Bristol fashion export) must coincide"));
    cov.insert("programs".into(), json!(progs.len()));
    cov.insert("compilations".into(), json!(compilations));
    cov.insert("fresh_processes".into(), json!(processes_ok));
    cov.insert("history_cases_program_after_sibling".into(), json!(history_cases));
    cov.insert("distinct_canary_hash_orders".into(), json!(canaries.len()));
    cov.insert("by_outcome".into(), counts.to_json());
    cov.insert("exhaustive".into(), json!(false));
    cov.insert("samples".into(), json!(samples));
    if canaries.len() < 8 {
        ctx.inconclusive(&format!("only {} distinct hash iteration orders observed by the canary", canaries.len()));
    }
    if processes_ok == 0 {
        ctx.inconclusive("no worker process completed");
    }
    remove_work_dir();
    ctx.finish(cov, vec!["hash seeds are sampled (fresh RandomState keys per HashMap and per process), not controlled".into()], 50)
}
