//! C05 — accepted programs compile to valid circuits whose I/O shape matches their types;
//! conversely, fully annotated well-typed programs are accepted.

use crate::gl;
use crate::model::ast::Program;
use crate::model::exec;
use crate::model::gen::{GenCfg, Profile};
use crate::model::print::{self, Layout};
use crate::model::ty::Ty;
use crate::rng::Rng;
use crate::util::{catch, par, Counts, Ctx, WORKERS};
use garble_lang::circuit_type::CircuitType;
use garble_lang::eval::EvalError;
use garble_lang::{GarbleProgram, TypedProgram};
use serde_json::{json, Map, Value};
use std::collections::{HashMap, HashSet};

/// Expected party sizes of a function per the harness' type model.
fn expected_parties(prog: &Program, fi: usize) -> Vec<usize> {
    let f = &prog.fns[fi];
    if f.params.len() == 1 {
        if let Ty::Array(et, n) = &f.params[0].ty {
            return vec![et.bits(&prog.defs); *n];
        }
    }
    f.params.iter().map(|p| p.ty.bits(&prog.defs)).collect()
}

#[derive(Default)]
struct St {
    counts: Counts,
    distinct: HashSet<u64>,
    samples: Vec<Value>,
    fns_compiled: u64,
    evals: u64,
}

/// Check every public function of an accepted program. `shape`: expected (parties, return bits)
/// per function name when the harness knows the types.
fn check_accepted(ctx: &Ctx, st: &mut St, src: &str, typed: &TypedProgram, shapes: &HashMap<String, (Vec<usize>, usize)>, rng: &mut Rng, what: &str) {
    check_accepted_with(ctx, st, src, typed, shapes, None, rng, what)
}

/// `model`: the harness' own program (for generating inputs that encode values of the parameter
/// types; random bits would e.g. contain invalid enum tags).
#[allow(clippy::too_many_arguments)]
fn check_accepted_with(ctx: &Ctx, st: &mut St, src: &str, typed: &TypedProgram, shapes: &HashMap<String, (Vec<usize>, usize)>, model: Option<&Program>, rng: &mut Rng, what: &str) {
    let mut names: Vec<&String> = typed.fn_defs.iter().filter(|(_, f)| f.is_pub).map(|(n, _)| n).collect();
    names.sort();
    for name in names {
        let viol = |msg: String| {
            ctx.violation(&format!("{what}: function '{name}': {msg}"), json!({"program": src, "function": name, "problem": msg}));
        };
        let r = catch(|| typed.compile(name).map(|(c, f)| (c, f.clone())));
        let (circ, fdef) = match r {
            Err(p) => {
                st.counts.inc("accepted: compiler panicked");
                viol(format!("the compiler panicked on a program the type checker accepts: {p}"));
                return;
            }
            Ok(Err(e)) => {
                // a compiler error (e.g. missing constants) is a rejection, which is fine
                st.counts.inc(&format!("accepted by check, rejected by compile: {:?}", e.first().map(|x| format!("{x}").chars().take(30).collect::<String>())));
                continue;
            }
            Ok(Ok(x)) => x,
        };
        st.fns_compiled += 1;
        if let Err(e) = circ.validate() {
            st.counts.inc("accepted: circuit fails validate()");
            viol(format!("the compiled circuit fails validate(): {e:?}"));
            return;
        }
        if let Some((parties, ret_bits)) = shapes.get(name.as_str()) {
            if &circ.input_gates != parties {
                viol(format!("party sizes {:?}, the parameter types need {:?}", circ.input_gates, parties));
                return;
            }
            if circ.output_gates.len() != gl::PANIC_BITS + ret_bits {
                viol(format!("{} output bits, expected 161 + {}", circ.output_gates.len(), ret_bits));
                return;
            }
        }
        // register form
        let reg = catch(|| garble_lang::register_circuit::Circuit::from(&circ));
        match reg {
            Err(p) => {
                viol(format!("register conversion panicked: {p}"));
                return;
            }
            Ok(r) => {
                if let Err(e) = r.validate() {
                    viol(format!("register circuit fails validate(): {e:?}"));
                    return;
                }
            }
        }
        // evaluation + decoding of the output by the declared return type
        let gp = GarbleProgram { program: typed.clone(), main: fdef, circuit: CircuitType::Ssa(circ.clone()), consts: HashMap::new(), const_sizes: HashMap::new() };
        for _ in 0..3 {
            let inputs: Vec<Vec<bool>> = match model.and_then(|m| m.fns.iter().find(|f| &f.name == name).map(|f| (m, f))) {
                Some((m, f)) => {
                    // encode values of the parameter types and split them by party
                    let mut flat: Vec<bool> = vec![];
                    for p in &f.params {
                        let v = crate::model::ty::gen_val(rng, &p.ty, &m.defs);
                        crate::model::ty::encode(&v, &p.ty, &m.defs, &mut flat);
                    }
                    let mut parts = vec![];
                    let mut off = 0;
                    for n in &circ.input_gates {
                        parts.push(flat[off..off + n].to_vec());
                        off += n;
                    }
                    parts
                }
                None => circ.input_gates.iter().map(|n| vec![false; *n]).collect(),
            };
            st.evals += 1;
            match catch(|| {
                let out = gp.circuit.eval(&inputs);
                (out.len(), gp.parse_output(&out))
            }) {
                Err(p) => {
                    viol(format!("evaluation / parse_output panicked: {p}"));
                    return;
                }
                Ok((n, r)) => {
                    if n != circ.output_gates.len() {
                        viol("eval returned a wrong number of bits".into());
                        return;
                    }
                    match r {
                        Ok(_) | Err(EvalError::Panic(_)) => {}
                        Err(e) => {
                            viol(format!("the output does not decode to a value of the declared return type: {e:?}"));
                            return;
                        }
                    }
                }
            }
        }
    }
}

fn zero_sized_programs(rng: &mut Rng) -> String {
    let zs = ["()", "Z", "U", "[u8; 0]", "[(u8, bool); 0]", "((), ())", "[(); 3]"];
    let defs = "struct Z {}\nenum U { Only }\n";
    let z1 = *rng.pick(&zs);
    let z2 = *rng.pick(&zs);
    let mk = |t: &str| -> String {
        match t {
            "()" => "()".into(),
            "Z" => "Z {}".into(),
            "U" => "U::Only".into(),
            "[u8; 0]" => "[0u8; 0]".into(),
            "[(u8, bool); 0]" => "[(0u8, true); 0]".into(),
            "((), ())" => "((), ())".into(),
            _ => "[(); 3]".into(),
        }
    };
    match rng.below(6) {
        0 => format!("{defs}pub fn main(x: {z1}) -> u8 {{ 1u8 }}\n"),
        1 => format!("{defs}pub fn main(x: {z1}, y: u8) -> {z2} {{ {} }}\n", mk(z2)),
        2 => format!("{defs}pub fn main(x: {z1}, y: {z2}) -> {z1} {{ x }}\n"),
        3 => format!("{defs}struct W {{ a: {z1}, b: u8 }}\npub fn main(w: W) -> (u8, {z1}) {{ (w.b, w.a) }}\n"),
        4 => format!("{defs}enum O {{ A({z1}), B }}\npub fn main(o: O, y: u8) -> u8 {{ match o {{ O::A(_) => y, O::B => 0u8 }} }}\n"),
        _ => format!("{defs}pub fn main(y: u8) -> ({z1}, u8) {{ let z = {}; (z, y) }}\n", mk(z1)),
    }
}

/// Programs the harness did not generate from its own model: the corpus, the slot grid of C07 and
/// every single-token deletion / duplication / adjacent swap of the corpus programs. Whatever the
/// type checker accepts of them has to compile to a valid circuit with the shape of the *declared*
/// types (computed by `c05_shapes`), to convert, to evaluate and to decode.
fn foreign_programs() -> Vec<(&'static str, String)> {
    let mut v: Vec<(&'static str, String)> = vec![];
    let corpus = crate::corpus::load();
    for (_, src) in corpus.iter() {
        v.push(("corpus program", src.clone()));
    }
    for (_, text) in super::c07_grid::programs() {
        v.push(("slot grid program", text));
    }
    for (_, src) in corpus.iter() {
        if src.len() > 3000 {
            continue;
        }
        let toks = super::c07::lex(src);
        for (ti, (s, e)) in toks.iter().enumerate() {
            v.push(("corpus program with a token deleted", format!("{}{}", &src[..*s], &src[*e..])));
            v.push(("corpus program with a token duplicated", format!("{} {}{}", &src[..*e], &src[*s..*e], &src[*e..])));
            if let Some((s2, e2)) = toks.get(ti + 1) {
                v.push(("corpus program with two tokens swapped", format!("{}{}{}{}{}", &src[..*s], &src[*s2..*e2], &src[*e..*s2], &src[*s..*e], &src[*e2..])));
            }
        }
    }
    v
}

pub fn run(ctx: &Ctx) -> i32 {
    super::progs::replay_program_witnesses(ctx);
    let foreign = foreign_programs();
    let foreign_results = par(WORKERS, |w| {
        let mut st = St::default();
        let mut complete = true;
        let mut runner = super::c07::ShapeRunner::new();
        let mine: Vec<&(&'static str, String)> = foreign.iter().enumerate().filter(|(i, _)| i % WORKERS == w).map(|(_, p)| p).collect();
        for chunk in mine.chunks(256) {
            if ctx.past(0.4) {
                complete = false;
                break;
            }
            let texts: Vec<String> = chunk.iter().map(|(_, t)| t.clone()).collect();
            let verdicts = runner.run("foreign program", &texts);
            for ((class, src), v) in chunk.iter().zip(verdicts) {
                use super::c07::ShapeVerdict as V;
                match v {
                    V::Rejected => st.counts.inc(&format!("{class}: rejected (not judged)")),
                    V::Held(judged, with_shape) => {
                        st.counts.inc(&format!("{class}: accepted, all public functions judged"));
                        st.counts.add("foreign public functions judged", judged as u64);
                        st.counts.add("foreign public functions with a shape from their declared types", with_shape as u64);
                        st.fns_compiled += judged as u64;
                        st.evals += judged as u64;
                        st.distinct.insert(crate::util::fnv(src.as_bytes()));
                    }
                    V::KnownCause(c) => {
                        st.counts.inc(&format!("{class}: accepted, known root cause {c} (not judged)"));
                        ctx.known_finding(if c.starts_with("unspecified") { "KF-C05-1" } else { "KF-C05-3" });
                    }
                    V::Panicked(stage, msg) => {
                        st.counts.inc(&format!("{class}: accepted, {stage} panicked"));
                        ctx.violation(&format!("{class}: accepted by the type checker, {stage} panicked: {}", msg.chars().take(200).collect::<String>()), json!({"program": src, "stage": stage, "message": msg}));
                    }
                    V::Bad(what) => {
                        st.counts.inc(&format!("{class}: accepted, product wrong"));
                        ctx.violation(&format!("{class}: {}", what.chars().take(260).collect::<String>()), json!({"program": src, "problem": what}));
                    }
                    V::NotJudged(why) => st.counts.inc(&format!("{class}: not judged ({})", why.chars().take(60).collect::<String>())),
                }
            }
        }
        (st, complete)
    });
    let results = par(WORKERS, |w| {
        let mut rng = Rng::derive(ctx.seed, 0x0500 + w as u64);
        let mut st = St::default();
        let mut it = 0u64;
        while !ctx.out_of_time() {
            it += 1;
            if it % 8 == 0 {
                // zero-sized types
                let src = zero_sized_programs(&mut rng);
                st.distinct.insert(crate::util::fnv(src.as_bytes()));
                match catch(|| garble_lang::check(&src)) {
                    Err(p) => {
                        ctx.violation(&format!("check() panicked on a program with zero-sized types: {p}"), json!({"program": src}));
                    }
                    Ok(Err(_)) => st.counts.inc("zero-sized: rejected"),
                    Ok(Ok(typed)) => {
                        st.counts.inc("zero-sized: accepted");
                        check_accepted(ctx, &mut st, &src, &typed, &HashMap::new(), &mut rng, "program with zero-sized types");
                    }
                }
                continue;
            }
            let profile = *rng.pick(&[Profile::Mixed, Profile::MutationHeavy, Profile::MatchFocused, Profile::PanicHeavy]);
            let mut cfg = GenCfg::new(profile);
            cfg.max_depth = 2 + rng.below(3) as u32;
            cfg.max_stmts = 3 + rng.usize_below(6);
            cfg.max_nodes = 40 + rng.usize_below(160);
            cfg.max_fns = rng.usize_below(4);
            cfg.return_all_vars = rng.chance(1, 4);
            let (mut prog, _pr, _) = exec::generate(&mut rng, cfg, Layout::Compact);
            // several public functions
            if rng.chance(1, 3) {
                for f in prog.fns.iter_mut() {
                    if rng.bool() {
                        f.is_pub = true;
                    }
                }
            }
            let style = rng.next_u64();
            let shapes: HashMap<String, (Vec<usize>, usize)> = (0..prog.fns.len()).map(|i| (prog.fns[i].name.clone(), (expected_parties(&prog, i), prog.fns[i].ret.bits(&prog.defs)))).collect();
            // (d) converse: fully annotated => accepted
            let annotated = print::render(&print::print_program(&prog, style), Layout::Compact);
            st.distinct.insert(crate::util::fnv(annotated.as_bytes()));
            match catch(|| garble_lang::check(&annotated)) {
                Err(p) => {
                    st.counts.inc("annotated: checker panicked");
                    ctx.violation(&format!("check() panicked on a generated well-typed program: {p}"), json!({"program": annotated}));
                    continue;
                }
                Ok(Err(e)) => {
                    st.counts.inc("annotated: REJECTED");
                    ctx.violation(
                        &format!("a well-typed, fully annotated program is rejected ({})", gl::error_kind(&e)),
                        json!({"program": annotated, "message": e.prettify(&annotated).chars().take(700).collect::<String>()}),
                    );
                    continue;
                }
                Ok(Ok(typed)) => {
                    st.counts.inc("annotated: accepted");
                    check_accepted_with(ctx, &mut st, &annotated, &typed, &shapes, Some(&prog), &mut rng, "annotated program");
                }
            }
            // (a) inference: drop suffixes / annotations; only acceptance => good circuit is judged
            for _ in 0..2 {
                let (ds, da) = *rng.pick(&[(30u64, 0u64), (0, 50), (60, 60), (100, 100), (15, 15)]);
                let stripped = print::render(&print::print_program_inference(&prog, rng.next_u64(), ds, da), Layout::Compact);
                st.distinct.insert(crate::util::fnv(stripped.as_bytes()));
                match catch(|| garble_lang::check(&stripped)) {
                    Err(p) => {
                        st.counts.inc("inference: checker panicked");
                        ctx.violation(&format!("check() panicked: {p}"), json!({"program": stripped}));
                    }
                    Ok(Err(_)) => st.counts.inc("inference: rejected (not judged)"),
                    Ok(Ok(typed)) => {
                        st.counts.inc("inference: accepted");
                        check_accepted_with(ctx, &mut st, &stripped, &typed, &shapes, Some(&prog), &mut rng, "program relying on literal / let inference");
                        if st.samples.len() < 2 && stripped.len() < 700 && it > 10 {
                            st.samples.push(json!({"program": stripped, "verdict": "accepted; every pub fn compiled, validated, shape-checked, evaluated"}));
                        }
                    }
                }
            }
        }
        st
    });
    let mut t = St::default();
    let mut foreign_complete = true;
    for (s, c) in foreign_results {
        foreign_complete &= c;
        t.counts.merge(&s.counts);
        t.distinct.extend(s.distinct);
        t.fns_compiled += s.fns_compiled;
        t.evals += s.evals;
    }
    for s in results {
        t.counts.merge(&s.counts);
        t.distinct.extend(s.distinct);
        t.fns_compiled += s.fns_compiled;
        t.evals += s.evals;
        if t.samples.len() < 3 {
            t.samples.extend(s.samples.into_iter().take(1));
        }
    }
    let mut cov = Map::new();
    cov.insert("evaluations".into(), json!(t.fns_compiled));
    cov.insert("distinct_nontrivial".into(), json!(t.distinct.len()));
    cov.insert("rule".into(), json!("a case is a program text (distinct by hash): a generated fully annotated program (must be accepted), the same program with literal suffixes / let annotations dropped at random (judged only if accepted), or a program with zero-sized types; for every accepted program every pub fn is compiled under catch_unwind, validated (SSA and register), its party sizes and output size are compared with the sizes the harness computes from the declared types, and it is evaluated on 3 random inputs whose output must decode by the declared return type"));
    cov.insert("programs_by_verdict".into(), t.counts.to_json());
    cov.insert("public_functions_compiled_and_checked".into(), json!(t.fns_compiled));
    cov.insert("evaluations_decoded".into(), json!(t.evals));
    cov.insert("exhaustive".into(), json!(false));
    cov.insert("foreign_programs".into(), json!({"offered": foreign.len(), "all_offered_programs_checked": foreign_complete, "what": "corpus programs, the C07 slot grid, every single-token deletion / duplication / adjacent swap of the corpus programs <= 3000 bytes; accepted ones are judged with the shape of their declared types"}));
    cov.insert("samples".into(), json!(t.samples));
    ctx.finish(cov, vec!["no semantic oracle for suffix-free programs: garble may legitimately infer other types than the generator intended; only acceptance => good circuit is judged there".into()], 500)
}
