//! C17 — ill-typed programs are rejected: every static rule violation is a type error.

use crate::gl;
use crate::model::exec;
use crate::model::gen::{GenCfg, Profile};
use crate::model::mutate::{self, Rule, TokRule, AST_RULES, TOK_RULES};
use crate::model::print::{self, Layout};
use crate::rng::Rng;
use crate::util::{catch, par, Counts, Ctx, Tier, WORKERS};
use serde_json::{json, Map, Value};
use std::collections::HashSet;

enum Verdict {
    RejectedByTypeChecker,
    RejectedByParser(String),
    Accepted,
    Crashed(String),
}

fn check(src: &str) -> Verdict {
    let t0 = std::time::Instant::now();
    let r = check_inner(src);
    if t0.elapsed().as_secs_f64() > 2.0 && std::env::var("VERIF_TRACE_SLOW").is_ok() {
        let path = format!("/tmp/scratch/slow_{}.rs", crate::util::fnv(src.as_bytes()) % 1000);
        let _ = std::fs::write(&path, src);
        eprintln!("SLOW check ({:.1}s): {path}", t0.elapsed().as_secs_f64());
    }
    r
}

fn check_inner(src: &str) -> Verdict {
    match catch(|| garble_lang::check(src).map(|_| ())) {
        Err(p) => Verdict::Crashed(p),
        Ok(Ok(())) => Verdict::Accepted,
        Ok(Err(e)) => match &e {
            garble_lang::Error::CompileTimeError(garble_lang::CompileTimeError::TypeError(errs)) if !errs.is_empty() => Verdict::RejectedByTypeChecker,
            other => Verdict::RejectedByParser(format!("{}: {}", gl::error_kind(other), other.prettify(src).chars().take(300).collect::<String>())),
        },
    }
}

#[derive(Default)]
struct St {
    mutants: Counts,
    rejected: Counts,
    other: Counts,
    distinct: HashSet<u64>,
    samples: Vec<Value>,
    bases: u64,
    n: u64,
}

fn judge(ctx: &Ctx, st: &mut St, rule_name: &str, base_src: &str, src: &str) {
    st.n += 1;
    st.mutants.inc(rule_name);
    st.distinct.insert(crate::util::fnv(src.as_bytes()));
    match check(src) {
        Verdict::RejectedByTypeChecker => st.rejected.inc(rule_name),
        Verdict::RejectedByParser(m) => {
            st.other.inc(&format!("{rule_name}: rejected before type checking (edit not syntax-preserving?)"));
            if st.other.get("parser-samples") < 2 {
                st.other.inc("parser-samples");
                st.samples.push(json!({"rule": rule_name, "note": "rejected by scanner/parser", "message": m, "mutant": src}));
            }
        }
        Verdict::Accepted => {
            ctx.violation(
                &format!("a program violating the rule '{rule_name}' passes the type checker"),
                json!({"rule": rule_name, "mutant": src, "well_typed_base": base_src}),
            );
        }
        Verdict::Crashed(p) => {
            ctx.violation(
                &format!("the type checker panicked on a program violating '{rule_name}': {p}"),
                json!({"rule": rule_name, "mutant": src, "well_typed_base": base_src}),
            );
        }
    }
}

/// Ill-typed programs whose disagreement only shows through an un-annotated binding: a literal of the
/// wrong kind (negative, bool, other suffix) inside an aggregate that is bound by `let` without a type
/// and later used where an aggregate of another element type is expected (argument, annotated let,
/// result). Enumerated.
fn crafted_inference_programs() -> Vec<String> {
    let mut v = vec![];
    for (lit, elems) in [("-1", &["u8", "u16", "u64", "usize"][..]), ("-1i8", &["u8", "i16", "u64"][..]), ("true", &["u8", "i32"][..]), ("1u16", &["u8", "i16", "bool"][..]), ("false", &["u16"][..])] {
        for elem in elems {
            let other = if *elem == "bool" { "true" } else { "2" };
            for (agg, ty) in [
                (format!("({lit}, {other})"), format!("({elem}, {elem})")),
                (format!("({other}, {lit})"), format!("({elem}, {elem})")),
                (format!("[{lit}, {other}]"), format!("[{elem}; 2]")),
                (format!("[{other}, {lit}, {other}]"), format!("[{elem}; 3]")),
                (format!("(({lit}, {other}), {other})"), format!("(({elem}, {elem}), {elem})")),
                (format!("[[{other}, {other}], [{lit}, {other}]]"), format!("[[{elem}; 2]; 2]")),
                (format!("[({other}, {lit}); 2]"), format!("[({elem}, {elem}); 2]")),
            ] {
                v.push(format!("fn f(p: {ty}) -> u8 {{ 0u8 }}\npub fn main(x: u8) -> u8 {{ let t = {agg}; f(t) + x }}\n"));
                v.push(format!("pub fn main(x: u8) -> u8 {{ let t = {agg}; let u: {ty} = t; x }}\n"));
                v.push(format!("pub fn main(x: u8) -> {ty} {{ let t = {agg}; t }}\n"));
                v.push(format!("pub fn main(x: u8) -> {ty} {{ let t = {agg}; if x == 0u8 {{ t }} else {{ t }} }}\n"));
                v.push(format!("pub fn main(x: u8) -> u8 {{ let t = {agg}; let mut u: {ty} = t; u = t; x }}\n"));
            }
        }
    }
    // suffix-free ranges nested in aggregate literals where the expected element type cannot be
    // the type of a range (signed, or too narrow for the last element)
    for (expr, ty) in [
        ("[0..2, 0..2]", "[[i8; 2]; 2]"),
        ("[0..2, 5..7]", "[[i64; 2]; 2]"),
        ("(0..2, x)", "([i8; 2], u8)"),
        ("(x, (1..3, true))", "(u8, ([i16; 2], bool))"),
        ("[0..2; 2]", "[[i16; 2]; 2]"),
        ("[254..256, 255..257]", "[[u8; 2]; 2]"),
        ("[65534..65537; 3]", "[[u16; 3]; 3]"),
        ("(255..257, x)", "([u8; 2], u8)"),
    ] {
        v.push(format!("pub fn main(x: u8) -> {ty} {{ {expr} }}\n"));
        v.push(format!("pub fn main(x: u8) -> u8 {{ let t: {ty} = {expr}; x }}\n"));
        v.push(format!("fn f(p: {ty}) -> u8 {{ 0u8 }}\npub fn main(x: u8) -> u8 {{ f({expr}) + x }}\n"));
    }
    // a pattern that names another enum than the one it is matched against (same variant names)
    for other in ["enum B { Off, On(u8) }", "enum B { On(u8), Off }", "enum B { Off, On(u16) }", "enum B { Off, On(u8), Extra }"] {
        let defs = format!("enum A {{ Off, On(u8) }}\n{other}\n");
        v.push(format!("{defs}pub fn main(x: u8) -> u8 {{ let s = A::On(x); match s {{ B::Off => 0u8, B::On(l) => 1u8 }} }}\n"));
        v.push(format!("{defs}pub fn main(x: u8) -> u8 {{ let s = A::On(x); match s {{ A::Off => 0u8, B::On(l) => 1u8 }} }}\n"));
        v.push(format!("{defs}pub fn main(x: u8) -> u8 {{ let s = A::On(x); match s {{ B::Off => 0u8, _ => 1u8 }} }}\n"));
        v.push(format!("{defs}pub fn main(x: u8) -> u8 {{ let s = (A::On(x), true); match s {{ (B::On(l), true) => 0u8, _ => 1u8 }} }}\n"));
        v.push(format!("{defs}pub fn main(x: u8) -> u8 {{ let mut n = 0u8; for (B::On(l), k) in [(A::On(x), 1u8)] {{ n = n + k; }} n }}\n"));
    }
    for (da, db) in [("enum A { V(u8) }", "enum B { V(u8) }"), ("enum A { V(u8, bool) }", "enum B { V(u8, bool) }"), ("enum A { V }", "enum B { V }")] {
        let (pat, val) = if da.contains("(u8, bool)") { ("B::V(v, w)", "A::V(x, true)") } else if da.contains("(u8)") { ("B::V(v)", "A::V(x)") } else { ("B::V", "A::V") };
        v.push(format!("{da}\n{db}\npub fn main(x: u8) -> u8 {{ let w = {val}; let {pat} = w; x }}\n"));
        v.push(format!("{da}\n{db}\npub fn main(x: u8) -> u8 {{ for {pat} in [{val}] {{ }} x }}\n"));
        v.push(format!("{da}\n{db}\nstruct S {{ e: A }}\npub fn main(x: u8) -> u8 {{ let s = S {{ e: {val} }}; let S {{ e: {pat} }} = s; x }}\n"));
    }
    // a block that ends in a let / assignment / for has the value (), whatever expression statements
    // of the wanted type it contains before
    for (ty, val) in [("u8", "x"), ("u16", "(x as u16) + 1u16"), ("bool", "x == 0u8"), ("(u8, u8)", "(x, x)"), ("[u8; 2]", "[x, x]")] {
        for tail in ["let z = x;", "r = 1u8;", "r += 1u8;", "for i in 0u8..3u8 { r = r + i; }", "let mut z = x;"] {
            v.push(format!("pub fn main(x: u8, c: bool) -> u8 {{ let mut r = 0u8; let y: {ty} = {{ {val}; {tail} }}; r }}\n"));
            v.push(format!("pub fn main(x: u8, c: bool) -> u8 {{ let mut r = 0u8; let y = if c {{ {val}; {tail} }} else {{ {val} }}; r }}\n"));
            v.push(format!("fn f(p: {ty}) -> u8 {{ 0u8 }}\npub fn main(x: u8, c: bool) -> u8 {{ let mut r = 0u8; f({{ {val}; {tail} }}) + r }}\n"));
            v.push(format!("pub fn main(x: u8, c: bool) -> u8 {{ let mut r = 0u8; let y = match c {{ true => {{ {val}; {tail} }}, false => {val} }}; r }}\n"));
        }
    }
    // a struct literal / pattern that names one field twice and leaves another one out
    for (lit, pat) in [("P { x: a, x: b }", "P { x: p, x: q }"), ("P { y: a, y: b }", "P { y: p, y: q }"), ("Q { x: a, y: b, x: a }", "Q { x: p, y: q, y: p }"), ("Q { z: a, z: b, z: a }", "Q { x: p, x: q, x: p }")] {
        let defs = "struct P { x: u8, y: u8 }\nstruct Q { x: u8, y: u8, z: u8 }\n";
        v.push(format!("{defs}pub fn main(a: u8, b: u8) -> u8 {{ let s = {lit}; a }}\n"));
        v.push(format!("{defs}pub fn main(a: u8, b: u8) -> u8 {{ let s = {lit}; s.x }}\n"));
        let whole = if pat.starts_with('P') { "P { x: a, y: b }" } else { "Q { x: a, y: b, z: a }" };
        v.push(format!("{defs}pub fn main(a: u8, b: u8) -> u8 {{ let {pat} = {whole}; p }}\n"));
        v.push(format!("{defs}pub fn main(a: u8, b: u8) -> u8 {{ match {whole} {{ {pat} => p }} }}\n"));
    }
    // a definition that is dropped because a later one has the same name must not hide its errors
    for prog in [
        "fn f(a: u8) -> u8 { a + undefined }\nfn f(a: u8) -> u8 { a }\npub fn main(x: u8) -> u8 { f(x) }\n",
        "fn f(a: u8) -> bool { a }\nfn f(a: u8) -> u8 { a }\npub fn main(x: u8) -> u8 { f(x) }\n",
        "pub fn main(x: u8) -> u8 { y }\npub fn main(x: u8) -> u8 { x }\n",
        "const C: u8 = true;\nconst C: u8 = 2u8;\npub fn main(x: u8) -> u8 { x + C }\n",
        "struct T { a: Unknown }\nstruct T { a: u8 }\npub fn main(x: u8) -> u8 { let t = T { a: x }; t.a }\n",
        "enum T { A(Unknown) }\nenum T { A(u8) }\npub fn main(x: u8) -> u8 { match T::A(x) { T::A(y) => y } }\n",
        "struct T { a: bool }\nenum T { A }\npub fn main(x: u8) -> u8 { let t = T { a: x }; x }\n",
    ] {
        v.push(prog.to_string());
    }
    // the built-ins have their arity: surplus arguments are not dropped
    for extra in ["a", "b", "nothing", "n + 1u8", "3u8", "true", "[(1u8, 2u8); 2]"] {
        v.push(format!("pub fn main(a: [(u8, u8); 2], b: [(u8, u8); 2]) -> u8 {{ let mut n = 0u8; for (p, q) in join_iter(a, b, {extra}) {{ n = n + p.1; }} n }}\n"));
        v.push(format!("pub fn main(a: [(u8, u8); 2], b: [(u8, u8); 2]) -> u8 {{ let mut n = 0u8; for (p, q) in join_iter(a, b, {extra}, {extra}) {{ n = n + q.1; }} n }}\n"));
        v.push(format!("pub fn main(a: [u8; 2], b: [u8; 2]) -> [(bool, u8); 3] {{ let n = 0u8; join(a, b, {extra}) }}\n"));
    }
    for call in ["join_iter(a)", "join_iter()", "join_iter(a, )"] {
        v.push(format!("pub fn main(a: [(u8, u8); 2], b: [(u8, u8); 2]) -> u8 {{ let mut n = 0u8; for (p, q) in {call} {{ n = n + 1u8; }} n }}\n"));
    }
    for call in ["join(a)", "join()"] {
        v.push(format!("pub fn main(a: [u8; 2], b: [u8; 2]) -> [(bool, u8); 3] {{ {call} }}\n"));
    }
    // type cycles that are reached from a definition outside of them (also when no function uses them)
    for defs in [
        "struct Wrapper { list: List }\nenum List { Nil, Cons(Node) }\nenum Node { Leaf(u8), Inner(List) }\n",
        "struct Outer { e: E1 }\nenum E1 { A(E2) }\nenum E2 { B(E3) }\nenum E3 { C(E1), D }\n",
        "struct Wrapper { t: (u8, [Tree; 2]) }\nenum Tree { Leaf(u8), Fork(Pair) }\nenum Pair { P(Tree, Tree) }\n",
        "enum Top { T(Wrapper) }\nstruct Wrapper { list: List }\nenum List { Nil, Cons(Node) }\nenum Node { Leaf(u8), Inner(List) }\n",
    ] {
        v.push(format!("{defs}pub fn main(x: u8) -> u8 {{ x }}\n"));
        v.push(format!("{defs}pub fn main(x: u8) -> u8 {{ let l = List::Nil; x }}\n"));
    }
    // array sizes written as const expressions with exactly one ill-typed operand (an unknown name, a
    // const of another type, a literal with another suffix): every operand has to be a usize
    for (bad, decl) in [("M", ""), ("B", "const B: u8 = 1u8;\n"), ("T", "const T: bool = true;\n"), ("I", "const I: i64 = 1i64;\n"), ("1u8", ""), ("true", "")] {
        for size in [
            format!("N + {bad}"),
            format!("{bad} + N"),
            format!("N - {bad}"),
            format!("{bad} - N"),
            format!("N + 1usize - {bad}"),
            format!("{bad} + 1usize + N"),
            format!("max(N + {bad}, N)"),
            format!("min(N, {bad} - N)"),
            format!("N + N + {bad}"),
        ] {
            let defs = format!("const N: usize = 2usize;\n{decl}");
            v.push(format!("{defs}pub fn main(s: [u8; const {{ {size} }}]) -> u8 {{ 0u8 }}\n"));
            v.push(format!("{defs}struct P {{ f: [bool; const {{ {size} }}] }}\npub fn main(x: u8) -> u8 {{ x }}\n"));
            v.push(format!("{defs}pub fn main(x: u8) -> [u8; const {{ {size} }}] {{ [x; 2] }}\n"));
            v.push(format!("{defs}pub fn main(x: u8) -> u8 {{ let a: [u8; const {{ {size} }}] = [x; 2]; x }}\n"));
            v.push(format!("{defs}enum Q {{ A([u8; const {{ {size} }}]), B }}\npub fn main(x: u8) -> u8 {{ x }}\n"));
        }
    }
    // range patterns that leave out part of the type, in the positions that demand an irrefutable
    // pattern: every number type x bounds at and next to MIN, -1, 0, 1 and MAX x with and without
    // suffix (only the full range MIN..=MAX is irrefutable)
    for (ty, min, max) in [
        ("i8", i8::MIN as i128, i8::MAX as i128),
        ("i16", i16::MIN as i128, i16::MAX as i128),
        ("i32", i32::MIN as i128, i32::MAX as i128),
        ("i64", i64::MIN as i128, i64::MAX as i128),
        ("u8", 0, u8::MAX as i128),
        ("u16", 0, u16::MAX as i128),
        ("u32", 0, u32::MAX as i128),
        ("usize", 0, u32::MAX as i128),
        ("u64", 0, u64::MAX as i128),
    ] {
        let mut points = vec![min, min + 1, -1, 0, 1, 3, 100, max - 1, max];
        points.retain(|p| *p >= min && *p <= max);
        points.dedup();
        for &lo in &points {
            for &hi in &points {
                if lo > hi || (lo == min && hi == max) {
                    continue;
                }
                // (only bounds that are next to an end of the type or to zero: the others add nothing)
                if lo != min && hi != max {
                    continue;
                }
                let mut spellings = vec![format!("{lo}{ty}..={hi}{ty}")];
                // without suffix only when both bounds have the same sign (otherwise a parse error)
                if (lo < 0) == (hi < 0) {
                    spellings.push(format!("{lo}..={hi}"));
                }
                if hi < max {
                    spellings.push(format!("{lo}{ty}..{}{ty}", hi + 1));
                }
                for pat in spellings {
                    v.push(format!("pub fn main(x: {ty}) -> u8 {{ let {pat} = x; 0u8 }}\n"));
                    v.push(format!("pub fn main(xs: [{ty}; 3]) -> u8 {{ for {pat} in xs {{ }} 0u8 }}\n"));
                    v.push(format!("pub fn main(t: (bool, {ty})) -> u8 {{ let (b, {pat}) = t; 0u8 }}\n"));
                }
            }
        }
    }
    v
}

pub fn run(ctx: &Ctx) -> i32 {
    let crafted = crafted_inference_programs();
    let results = par(WORKERS, |w| {
        let mut rng = Rng::derive(ctx.seed, 0x1700 + w as u64);
        let mut st = St::default();
        for (i, src) in crafted.iter().enumerate() {
            if i % WORKERS == w {
                judge(ctx, &mut st, "CraftedIllTypedProgram", "(crafted)", src);
            }
        }
        while !ctx.out_of_time() {
            let profile = *rng.pick(&[Profile::Mixed, Profile::MutationHeavy, Profile::MatchFocused]);
            let mut cfg = GenCfg::new(profile);
            cfg.max_depth = 2 + rng.below(2) as u32;
            cfg.max_stmts = 3 + rng.usize_below(5);
            cfg.max_nodes = 40 + rng.usize_below(120);
            cfg.max_fns = rng.usize_below(4);
            cfg.return_all_vars = false;
            let (prog, pr, _) = exec::generate(&mut rng, cfg, Layout::Compact);
            // the base must be accepted (otherwise the experiment says nothing)
            if !matches!(check(&pr.src), Verdict::Accepted) {
                st.other.inc("base program not accepted (reported by C05)");
                continue;
            }
            st.bases += 1;
            let style = rng.next_u64();
            let all_sites = ctx.tier == Tier::Thorough;
            for rule in AST_RULES {
                // number of sites
                let (_, sites) = mutate::apply(&prog, rule, usize::MAX, &mut rng);
                if sites == 0 {
                    continue;
                }
                let targets: Vec<usize> = if all_sites || sites <= 3 { (0..sites).collect() } else { (0..3).map(|_| rng.usize_below(sites)).collect() };
                for t in targets {
                    let (m, _) = mutate::apply(&prog, rule, t, &mut rng);
                    let Some(m) = m else { continue };
                    let toks = print::print_program_suffixed(&m, style);
                    let src = print::render(&toks, Layout::Compact);
                    judge(ctx, &mut st, &format!("{rule:?}"), &pr.src, &src);
                }
            }
            for rule in TOK_RULES {
                let (_, sites) = mutate::apply_tok(&pr.toks, &prog.defs, rule, usize::MAX);
                if sites == 0 {
                    continue;
                }
                let targets: Vec<usize> = if all_sites || sites <= 3 { (0..sites).collect() } else { (0..3).map(|_| rng.usize_below(sites)).collect() };
                for t in targets {
                    if let (Some(toks), _) = mutate::apply_tok(&pr.toks, &prog.defs, rule, t) {
                        let src = print::render(&toks, Layout::Compact);
                        judge(ctx, &mut st, &format!("{rule:?}"), &pr.src, &src);
                    }
                }
            }
            // pairs of edits
            for _ in 0..3 {
                let r1 = *rng.pick(&AST_RULES);
                let r2 = *rng.pick(&AST_RULES);
                if r1 == r2 {
                    // the same count-changing edit applied twice can cancel itself (+1 then -1)
                    continue;
                }
                if r1 == Rule::DeclaredReturnType || r2 == Rule::DeclaredReturnType {
                    // changing the declared return type can make a second edit (another returned
                    // value, another annotation of the bound result) well-typed again
                    continue;
                }
                let (_, s1) = mutate::apply(&prog, r1, usize::MAX, &mut rng);
                if s1 == 0 {
                    continue;
                }
                let t1 = rng.usize_below(s1);
                let (Some(m1), _) = mutate::apply(&prog, r1, t1, &mut rng) else { continue };
                let (_, s2) = mutate::apply(&m1, r2, usize::MAX, &mut rng);
                if s2 == 0 {
                    continue;
                }
                let t2 = rng.usize_below(s2);
                let (Some(m2), _) = mutate::apply(&m1, r2, t2, &mut rng) else { continue };
                let toks = print::print_program_suffixed(&m2, style);
                let src = print::render(&toks, Layout::Compact);
                judge(ctx, &mut st, "two edits", &pr.src, &src);
            }
            if st.samples.len() < 3 && st.bases % 50 == 7 {
                if let (Some(m), _) = mutate::apply(&prog, Rule::AssignToImmutable, 0, &mut rng) {
                    let toks = print::print_program_suffixed(&m, style);
                    st.samples.push(json!({"rule": "AssignToImmutable", "mutant": print::render(&toks, Layout::Compact), "verdict": "rejected by the type checker"}));
                }
            }
        }
        let _ = TokRule::UnknownField;
        st
    });
    let mut t = St::default();
    for s in results {
        t.mutants.merge(&s.mutants);
        t.rejected.merge(&s.rejected);
        t.other.merge(&s.other);
        t.distinct.extend(s.distinct);
        t.bases += s.bases;
        t.n += s.n;
        if t.samples.len() < 4 {
            t.samples.extend(s.samples.into_iter().take(2));
        }
    }
    let mut per_rule = Map::new();
    for (k, v) in &t.mutants.0 {
        per_rule.insert(k.clone(), json!({"mutants": v, "rejected_by_type_checker": t.rejected.get(k)}));
    }
    let mut cov = Map::new();
    cov.insert("evaluations".into(), json!(t.n));
    cov.insert("distinct_nontrivial".into(), json!(t.distinct.len()));
    cov.insert("rule".into(), json!("a case is a mutant: a generated, accepted, fully annotated program with one rule-breaking edit (each applicable site of each rule, sampled to 3 sites per rule in the quick tier) or two edits; distinct by source hash; every mutant must be rejected by check() with a non-empty list of type errors"));
    cov.insert("well_typed_base_programs".into(), json!(t.bases));
    cov.insert("per_rule".into(), Value::Object(per_rule));
    cov.insert("rules_exercised".into(), json!(t.mutants.0.len()));
    cov.insert("other_outcomes".into(), t.other.to_json());
    cov.insert("exhaustive".into(), json!(false));
    cov.insert("samples".into(), json!(t.samples));
    ctx.finish(cov, vec!["each edit is constructed so that the result violates a documented static rule; mutants rejected by the scanner/parser are counted separately (harness edit not syntax-preserving), never as violations".into()], 500)
}
