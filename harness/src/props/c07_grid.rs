//! C07, phase G: the slot grid. Small-scope enumeration of *near-valid* programs: every kind of
//! value, type, pattern and constant expression is put into every kind of syntactic slot, whether it
//! fits there or not. Most of these programs are ill-typed (the checker has to answer with located
//! errors), the rest reaches the compiler. Random mutation of valid programs reaches such
//! combinations only by luck (they need two or three cooperating edits: `const B: bool = max(true,
//! false)` needs a bool-typed const *and* a max over bools).

/// Declarations shared by all grid programs.
pub const PRE: &str = "struct S { a: u8, b: bool }\nstruct Z {}\nenum E { A, B(u8), C(u8, bool) }\nconst N: usize = 2usize;\nconst K: u8 = 3u8;\nconst Q: bool = true;\npub fn f(p: u8) -> u8 { p }\npub fn g(p: [u8; N], q: S) -> E { E::B(p[0] + q.a) }\n";

/// Types (the last few are not well-formed).
pub const TYPES: &[&str] = &[
    "bool", "u8", "u16", "u32", "u64", "usize", "i8", "i16", "i32", "i64", "S", "Z", "E", "[u8; 2]", "[u8; N]", "[bool; 0]", "(u8, bool)", "[(u8, bool); 2]", "([u8; 2], S)", "[[u8; N]; 2]", "[Z; 3]",
    "[u8; const { N + 1usize }]", "[[bool; const { N - 1usize }]; N]", "[S; const { N + 1usize }]", "[E; const { N }]", "[(S, E); const { N - 1usize }]", "[[Z; N]; const { N }]",
    "W", "[u8; K]", "[u8; Q]", "[u8; W]", "[u8; f]", "()",
];
/// Number of well-formed types at the front of `TYPES`.
const N_GOOD_TYPES: usize = 27;

/// Values (expressions that need no variable in scope besides the declarations of PRE).
pub const VALUES: &[&str] = &[
    "true", "0", "1u8", "-1", "-1i8", "300", "2usize", "18446744073709551615", "S { a: 1u8, b: true }", "S { a: 1, b: true }", "Z {}", "E::A", "E::B(1u8)", "E::C(1, false)", "[1u8, 2u8]", "[1, 2]", "[1u8; N]", "[true; 0]", "[Z {}; 3]",
    "(1u8, true)", "(1, 2)", "0..2", "1u8..3u8", "N", "K", "Q", "f(1u8)", "f", "W", "E::B", "E::W", "S", "{ 1u8 }", "{ }", "if Q { 1 } else { 2 }",
];

const BIN_OPS: &[&str] = &["+", "-", "*", "/", "%", "&", "|", "^", "<<", ">>", "==", "!=", "<", "<=", ">", ">=", "&&", "||"];
const ASSIGN_OPS: &[&str] = &["=", "+=", "-=", "*=", "/=", "%=", "&=", "|=", "^=", "<<=", ">>="];

const PATTERNS: &[&str] = &[
    "_", "x", "true", "false", "0", "1u8", "-1", "-1i8", "300", "0..5", "0..=5", "5..0", "5..=0", "0u8..5u8", "0u8..=255u8", "0u8..5u16", "-3..3", "-3i8..=3i8", "(x, y)", "(x, y, z)", "(_, true)", "(0, _)", "S { a, b }", "S { a, .. }", "S { .. }",
    "S { a: 0, b: true }", "S { a, a }", "S { a, b, c }", "S { c, .. }", "Z {}", "Z { .. }", "E::A", "E::B(x)", "E::B(0)", "E::B(x, y)", "E::B", "E::A(x)", "E::C(x, true)", "E::C(0..3, _)", "E::W", "W::A", "[x, y]", "N", "K",
];

const CONST_ATOMS: &[&str] = &["true", "false", "0", "1", "300", "1u8", "-1", "-1i8", "1usize", "4294967295usize", "PARTY::X", "N", "K", "Q", "C", "W"];

pub fn programs() -> Vec<(&'static str, String)> {
    let mut out: Vec<(&'static str, String)> = vec![];
    let mut extra: Vec<(&'static str, String)> = vec![];
    let mut p = |class: &'static str, body: String| out.push((class, format!("{PRE}{body}")));

    // ---- const definitions: every type x every const expression form over every atom
    let mut const_exprs: Vec<String> = CONST_ATOMS.iter().map(|s| s.to_string()).collect();
    for a in CONST_ATOMS {
        const_exprs.push(format!("max({a})"));
        const_exprs.push(format!("min()"));
        for b in CONST_ATOMS {
            for form in ["max({a}, {b})", "min({a}, {b})", "{a} + {b}", "{a} - {b}"] {
                const_exprs.push(form.replace("{a}", a).replace("{b}", b));
            }
        }
    }
    for (a, b, c) in [("1u8", "2u8", "3u8"), ("true", "false", "true"), ("N", "1usize", "PARTY::X"), ("1", "2", "3"), ("-1i8", "1i8", "K")] {
        for form in ["max({a}, {b}, {c})", "max({a} + {b}, {c})", "max(max({a}, {b}), {c})", "{a} + {b} - {c}", "{a} - {b} + {c}", "min({a}, max({b}, {c}))", "max({a}, {b}) + min({b}, {c})", "{a} - ({b} - {c})", "({a})"] {
            const_exprs.push(form.replace("{a}", a).replace("{b}", b).replace("{c}", c));
        }
    }
    const_exprs.sort();
    const_exprs.dedup();
    for t in TYPES {
        for ce in &const_exprs {
            // used as a value, and (usize) as an array size
            p("slot grid: const definition", format!("const C: {t} = {ce};\npub fn main(x: u8) -> u8 {{ let c = C; x }}\n"));
        }
    }
    for ce in &const_exprs {
        p("slot grid: const definition", format!("const C: usize = {ce};\npub fn main(x: u8) -> [u8; C] {{ [x; C] }}\n"));
        p("slot grid: const expression as array size", format!("pub fn main(x: u8) -> u8 {{ let a: [u8; {ce}] = [x; {ce}]; x }}\n"));
    }

    // ---- names declared twice (and names of different kinds that collide)
    for prog in [
        "enum T { A, A }\npub fn main(x: u8) -> u8 { match T::A { T::A => x } }\n",
        "enum T { A, A(u8) }\npub fn main(x: u8) -> u8 { match T::A(x) { T::A(y) => y } }\n",
        "enum T { A(u8), A }\npub fn main(x: u8) -> u8 { match T::A { T::A => x } }\n",
        "enum T { A(u8), B, A(u16) }\npub fn main(x: u8) -> u8 { match T::B { T::A(y) => x, T::B => x } }\n",
        "enum T { A(u8), A(u8) }\npub fn main(x: u8) -> u8 { match T::A(x) { T::A(y) => y } }\n",
        "struct T { a: u8, a: u8 }\npub fn main(x: u8) -> u8 { let t = T { a: x }; t.a }\n",
        "struct T { a: u8, a: u16 }\npub fn main(x: u8) -> u8 { let t = T { a: x, a: 1u16 }; t.a }\n",
        "struct T { a: u8 }\nstruct T { b: u16 }\npub fn main(x: u8) -> u8 { let t = T { a: x }; t.a }\n",
        "struct T { a: u8 }\nenum T { A }\npub fn main(x: u8) -> u8 { let t = T { a: x }; t.a }\n",
        "enum T { A }\nenum T { A, B }\npub fn main(x: u8) -> u8 { match T::A { T::A => x } }\n",
        "const C: u8 = 1u8;\nconst C: u8 = 2u8;\npub fn main(x: u8) -> u8 { x + C }\n",
        "const C: u8 = 1u8;\nconst C: u16 = 2u16;\npub fn main(x: u8) -> u8 { x + C }\n",
        "pub fn h(a: u8) -> u8 { a }\npub fn h(a: u8) -> u8 { a + 1u8 }\npub fn main(x: u8) -> u8 { h(x) }\n",
        "pub fn h(a: u8) -> u8 { a }\npub fn h(a: u16) -> u16 { a }\npub fn main(x: u8) -> u8 { h(x) }\n",
        "pub fn main(x: u8, x: u8) -> u8 { x }\n",
        "pub fn main(x: u8, x: u16) -> u8 { x }\n",
        "pub fn main(x: u8) -> u8 { x }\npub fn main(x: u8) -> u8 { x + 1u8 }\n",
        "pub fn h(a: u8, a: bool) -> u8 { a }\npub fn main(x: u8) -> u8 { h(x, true) }\n",
        "const h: u8 = 1u8;\npub fn h(a: u8) -> u8 { a }\npub fn main(x: u8) -> u8 { h(x) + h }\n",
        "const main: u8 = 1u8;\npub fn main(x: u8) -> u8 { x + main }\n",
        "struct main { a: u8 }\npub fn main(x: u8) -> u8 { let m = main { a: x }; m.a }\n",
        "const N: usize = 1usize;\npub fn main(N: u8) -> u8 { N }\n",
        "pub fn main(x: u8) -> u8 { let (a, a) = (x, 1u8); a }\n",
        "pub fn main(x: u8) -> u8 { match (x, 1u8) { (a, a) => a } }\n",
        "struct T { a: u8, b: u8 }\npub fn main(x: u8) -> u8 { let T { a: y, b: y } = T { a: x, b: 2u8 }; y }\n",
        "pub fn main(x: u8) -> u8 { let mut n = 0u8; for (a, a) in [(x, 1u8)] { n = a; } n }\n",
        "const C: u8 = PARTY::X;\nconst D: u16 = PARTY::X;\npub fn main(x: u8) -> u16 { (C as u16) + D + (x as u16) }\n",
        "const C: u8 = PARTY::X;\nconst D: u8 = PARTY::X;\npub fn main(x: u8) -> u8 { C + D + x }\n",
        "const C: bool = PARTY::X;\nconst D: u8 = max(PARTY::X, 1u8);\npub fn main(x: u8) -> u8 { if C { D } else { x } }\n",
    ] {
        extra.push(("slot grid: names declared twice", prog.to_string()));
    }

    // ---- every type in every type position
    for t in TYPES {
        p("slot grid: type positions", format!("pub fn main(a: {t}) -> {t} {{ a }}\n"));
        p("slot grid: type positions", format!("pub fn main(x: u8) -> u8 {{ let a: {t} = x; x }}\n"));
        p("slot grid: type positions", format!("struct T {{ t: {t} }}\npub fn main(x: T) -> {t} {{ x.t }}\n"));
        p("slot grid: type positions", format!("enum T {{ V({t}), U }}\npub fn main(x: T) -> bool {{ match x {{ T::V(_) => true, T::U => false }} }}\n"));
        p("slot grid: type positions", format!("pub fn h(a: {t}) -> {t} {{ a }}\npub fn main(a: {t}) -> {t} {{ h(a) }}\n"));
        p("slot grid: type positions", format!("pub fn main(a: [{t}; 2]) -> ({t}, {t}) {{ (a[0], a[1]) }}\n"));
        p("slot grid: type positions", format!("pub fn main(a: {t}, b: {t}) -> bool {{ a == b }}\n"));
        p("slot grid: type positions", format!("pub fn main(a: {t}) -> u8 {{ let mut n = 0u8; for e in [a, a] {{ n = n + 1u8; }} n }}\n"));
        for v in VALUES {
            p("slot grid: value under a type annotation", format!("pub fn main(x: u8) -> u8 {{ let r: {t} = {v}; x }}\n"));
            p("slot grid: value as the result", format!("pub fn main(x: u8) -> {t} {{ {v} }}\n"));
            p("slot grid: cast", format!("pub fn main(x: u8) -> u8 {{ let r = {v} as {t}; x }}\n"));
        }
        for t2 in TYPES {
            p("slot grid: cast", format!("pub fn main(a: {t}) -> {t2} {{ a as {t2} }}\n"));
        }
    }

    // ---- operators over every pair of values / of a typed parameter and a value
    for op in BIN_OPS {
        for v in VALUES {
            for w in VALUES {
                p("slot grid: binary operator", format!("pub fn main(x: u8) -> u8 {{ let r = {v} {op} {w}; x }}\n"));
            }
            for t in &TYPES[..N_GOOD_TYPES] {
                p("slot grid: binary operator", format!("pub fn main(a: {t}) -> u8 {{ let r = a {op} {v}; 0u8 }}\n"));
                p("slot grid: binary operator", format!("pub fn main(a: {t}) -> u8 {{ let r = {v} {op} a; 0u8 }}\n"));
            }
        }
        for t in &TYPES[..N_GOOD_TYPES] {
            for t2 in &TYPES[..N_GOOD_TYPES] {
                p("slot grid: binary operator", format!("pub fn main(a: {t}, b: {t2}) -> u8 {{ let r = a {op} b; 0u8 }}\n"));
            }
        }
    }
    for v in VALUES {
        for form in ["!{v}", "-{v}", "{v}.0", "{v}.1", "{v}.2", "{v}.a", "{v}.c", "{v}[0]", "{v}[1usize]", "{v}[2]", "{v}[x]", "{v}[{v}]", "{v}(1u8)", "{v}()", "f({v})", "f({v}, {v})", "g({v}, {v})", "g([1u8; N], {v})", "[{v}; 2]", "[{v}; N]", "[{v}; 0]", "[{v}, 1u8]", "[1u8, {v}]", "({v}, {v})", "S { a: {v}, b: {v} }", "S { a: {v} }", "E::B({v})", "E::C({v}, {v})", "E::A({v})", "join({v}, {v})", "max({v}, {v})", "{ let y = {v}; y }", "if {v} { 1u8 } else { 2u8 }", "if x == 0 { {v} } else { {v} }", "match x { 0 => {v}, _ => {v} }"] {
            p("slot grid: value in an expression slot", format!("pub fn main(x: u8) -> u8 {{ let r = {}; x }}\n", form.replace("{v}", v)));
        }
        for form in ["for i in {v} { n = n + 1u8; }", "for i in join({v}, {v}) { n = n + 1u8; }", "for (i, j) in join({v}, [(1u8, 2u8)]) { n = n + i; }", "let mut m = {v}; m = {v};", "let mut m = {v}; m[0] = x;", "let mut m = {v}; m.0 = x;", "let mut m = {v}; m.a = x;", "n = {v};", "n[{v}] = 1u8;", "{v} = n;", "{v};", "let {v} = n;"] {
            p("slot grid: value in a statement slot", format!("pub fn main(x: u8) -> u8 {{ let mut n = x; {} n }}\n", form.replace("{v}", v)));
        }
        for w in VALUES {
            p("slot grid: branches of different kinds", format!("pub fn main(x: u8) -> u8 {{ let r = if x == 0 {{ {v} }} else {{ {w} }}; x }}\n"));
            p("slot grid: branches of different kinds", format!("pub fn main(x: u8) -> u8 {{ let r = match x {{ 0 => {v}, _ => {w} }}; x }}\n"));
            p("slot grid: array of different kinds", format!("pub fn main(x: u8) -> u8 {{ let r = [{v}, {w}]; x }}\n"));
            p("slot grid: index", format!("pub fn main(x: u8) -> u8 {{ let r = {v}[{w}]; x }}\n"));
            for op in ASSIGN_OPS {
                p("slot grid: assignment", format!("pub fn main(x: u8) -> u8 {{ let mut m = {v}; m {op} {w}; x }}\n"));
            }
        }
    }

    // ---- patterns against every kind of scrutinee
    let mut scrutinees: Vec<(String, String)> = VALUES.iter().map(|v| ("x: u8".to_string(), v.to_string())).collect();
    for t in &TYPES[..N_GOOD_TYPES] {
        scrutinees.push((format!("a: {t}"), "a".to_string()));
    }
    for (param, s) in &scrutinees {
        for pat in PATTERNS {
            p("slot grid: pattern", format!("pub fn main({param}) -> u8 {{ match {s} {{ {pat} => 1u8, _ => 0u8 }} }}\n"));
            p("slot grid: pattern", format!("pub fn main({param}) -> u8 {{ match {s} {{ {pat} => 1u8 }} }}\n"));
            p("slot grid: pattern", format!("pub fn main({param}) -> u8 {{ let {pat} = {s}; 0u8 }}\n"));
            p("slot grid: pattern", format!("pub fn main({param}) -> u8 {{ for {pat} in [{s}, {s}] {{ }} 0u8 }}\n"));
            p("slot grid: pattern", format!("pub fn main({param}) -> u8 {{ match ({s}, {s}) {{ ({pat}, _) => 1u8, (_, {pat}) => 2u8, _ => 0u8 }} }}\n"));
        }
        for pat in PATTERNS {
            for pat2 in PATTERNS.iter().step_by(3) {
                p("slot grid: two patterns", format!("pub fn main({param}) -> u8 {{ match {s} {{ {pat} => 1u8, {pat2} => 2u8 }} }}\n"));
            }
        }
    }
    // ---- `_` is an ordinary identifier for the scanner, the parser and the checker: a program may
    //      read it after a pattern bound it
    for body in [
        "let _ = x; _",
        "let _ = x + 1u8; _ + x",
        "match x { _ => _ }",
        "match (x, true) { (_, true) => _, (_, false) => 0u8 }",
        "let (_, y) = (x, 1u8); _ + y",
        "let (y, _) = (1u8, x); _ + y",
        "let mut n = 0u8; for _ in [x, x] { n = n + _; } n",
        "let mut n = 0u8; for (_, v) in [(x, 1u8), (2u8, x)] { n = n + _ + v; } n",
        "let mut n = 0u8; for (_, v) in join_iter([(x, 1u8)], [(x, 2u8)]) { n = n + _.1 + v.1; } n",
        "let S { a: _, b } = S { a: x, b: true }; if b { _ } else { 0u8 }",
        "match E::B(x) { E::B(_) => _, E::A => 0u8, E::C(_, _) => 1u8 }",
        "match E::C(x, true) { E::C(_, b) => if b { _ } else { 0u8 }, _ => 2u8 }",
        "let _ = [x; N]; _[1]",
        "let _ = f(x); f(_)",
    ] {
        extra.push(("slot grid: wildcard read as a variable", format!("{PRE}pub fn main(x: u8) -> u8 {{ {body} }}\n")));
    }
    // ---- joins over rows without fields / with zero-sized keys
    for prog in [
        "pub fn main(a: [(); 2], b: [(); 3]) -> u8 { for _ in join_iter(a, b) {} 0u8 }\n",
        "pub fn main(a: [(); 2], b: [(); 3], x: u8) -> u8 { let mut n = x; for r in join_iter(a, b) { n = n + 1u8; } n }\n",
        "pub fn main(a: [(); 2], b: [(u8, u8); 3], x: u8) -> u8 { let mut n = x; for r in join_iter(a, b) { n = n + 1u8; } n }\n",
        "pub fn main(a: [(u8, u8); 2], b: [(); 3], x: u8) -> u8 { let mut n = x; for r in join_iter(a, b) { n = n + 1u8; } n }\n",
        "pub fn main(a: [(); 2], b: [(); 3], x: u8) -> u8 { let j = join(a, b); x }\n",
        "pub fn main(a: [((), u8); 2], b: [((), bool); 1], x: u8) -> u8 { let mut n = x; for (p, q) in join_iter(a, b) { n = n + p.1; } n }\n",
        "struct Z {}\npub fn main(a: [(Z, u8); 2], b: [(Z, u8); 2], x: u8) -> u8 { let mut n = x; for (p, q) in join_iter(a, b) { n = n + p.1 + q.1; } n }\n",
        "pub fn main(a: [([u8; 0], u8); 2], b: [([u8; 0], u16); 2], x: u8) -> u8 { let mut n = x; for (p, q) in join_iter(a, b) { n = n + p.1; } n }\n",
        "pub fn main(a: [u8; 2], b: [(u8, u8); 2], x: u8) -> u8 { let mut n = x; for r in join_iter(a, b) { n = n + 1u8; } n }\n",
        "pub fn main(a: [(u8,); 2], x: u8) -> u8 { x }\n",
    ] {
        extra.push(("slot grid: joins over degenerate rows", prog.to_string()));
    }
    // ---- values with many columns that no pattern discriminates (the exhaustiveness check must not
    //      enumerate the constructors of columns that are only bound)
    {
        let e12 = vec!["E"; 12].join(", ");
        let v12 = vec!["E::C(x, true)"; 12].join(", ");
        let b40 = vec!["bool"; 40].join(", ");
        let t40 = vec!["Q"; 40].join(", ");
        for body in [
            format!("let t: ({e12}) = ({v12}); match t {{ a => x }}"),
            format!("let t: ({e12}) = ({v12}); let (a, b) = (t, t); x"),
            format!("let t: ({b40}) = ({t40}); match (t, x) {{ (a, 0) => 1u8, (b, c) => c }}"),
            format!("let mut n = x; for (a, b) in [(({v12}), 1u8)] {{ n = n + b; }} n"),
        ] {
            extra.push(("slot grid: many columns that are only bound", format!("{PRE}pub fn main(x: u8) -> u8 {{ {body} }}\n")));
        }
    }
    // ---- repeat literals whose count is a const, of every type a const can have, in uses that never
    //      meet a written array type (only a usize const is a count; whatever is accepted must compile)
    for (kty, kval) in [("usize", "3usize"), ("u8", "3u8"), ("u16", "3u16"), ("u32", "3u32"), ("u64", "3u64"), ("i8", "3i8"), ("i64", "3i64"), ("bool", "true")] {
        for body in [
            "let a = [x; K]; a[0]",
            "let a = [x; K]; a[0] + a[2]",
            "let mut n = 0u8; for v in [x; K] { n = n + v; } n",
            "let a = [x; K]; let b = [x; K]; if a == b { 1u8 } else { 0u8 }",
            "let a = [(x, true); K]; let (p, q) = a[1]; p",
            "let a = [[x; K]; K]; a[1][1]",
            "let mut a = [x; K]; a[1] = 0u8; a[0] + a[1]",
            "[x; K][0]",
            "match [x; K] { [a, b, c] => a + b + c }",
        ] {
            extra.push(("slot grid: repeat literal counted by a const", format!("const K: {kty} = {kval};\npub fn main(x: u8) -> u8 {{ {body} }}\n")));
        }
    }
    // ---- a tuple scrutinee with a component that is a constant, arms whose literal at that position
    //      does not match it and that bind names at later positions
    for scrut in ["(2u8, x)", "(2u8, x, true)", "(false, (x, 7u16))", "((1u8, 2u8), x)"] {
        for arms in [
            "(3u8, y) => y + 1u8, (2u8, z) => z + 2u8, (_, w) => w",
            "(0u8..=1u8, y) => y + 1u8, (k, z) => z + k",
            "(3u8, y, _) => y + 1u8, (_, z, true) => z + 2u8, (_, w, false) => w",
            "(true, (y, _)) => y + 1u8, (false, (z, q)) => z + 2u8",
            "((1u8, 3u8), y) => y + 1u8, ((_, b), z) => z + b",
            "(9u8, y) => { let t = y; t }, (_, z) => z",
        ] {
            extra.push(("slot grid: constant component in a tuple scrutinee", format!("pub fn main(x: u8) -> u8 {{ match {scrut} {{ {arms} }} }}\n")));
        }
    }
    // ---- type cycles that are reached from a definition outside of them (structs are examined
    //      before enums, so the outside definition comes first when the cycle consists of enums)
    for defs in [
        "struct Wrapper { list: List }\nenum List { Nil, Cons(Node) }\nenum Node { Leaf(u8), Inner(List) }\n",
        "struct A { w: Wrapper }\nstruct Wrapper { list: List, n: u8 }\nenum List { Nil, Cons(u8, Node) }\nenum Node { Leaf, Inner(List, List) }\n",
        "struct Wrapper { t: (u8, [Tree; 2]) }\nenum Tree { Leaf(u8), Fork(Pair) }\nenum Pair { P(Tree, Tree) }\n",
        "struct Outer { e: E1 }\nenum E1 { A(E2) }\nenum E2 { B(E3) }\nenum E3 { C(E1), D }\n",
        "enum Top { T(Wrapper) }\nstruct Wrapper { list: List }\nenum List { Nil, Cons(Node) }\nenum Node { Leaf(u8), Inner(List) }\n",
    ] {
        for main in [
            "pub fn main(x: u8) -> u8 { x }",
            "pub fn main(x: u8) -> u8 { let l = List::Nil; x }",
            "pub fn main(w: Wrapper, x: u8) -> u8 { x }",
            "pub fn main(x: u8) -> Wrapper { Wrapper { list: List::Nil } }",
        ] {
            extra.push(("slot grid: type cycle reached from outside", format!("{defs}{main}\n")));
        }
    }
    out.extend(extra);
    out
}
