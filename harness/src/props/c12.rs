//! C12 — const parameters act as literal substitution; missing / mistyped ones are errors.

use crate::bits;
use crate::gl::{self, CompileOutcome};
use crate::ints::{self, IntTy};
use crate::rng::Rng;
use crate::util::{catch, par, Counts, Ctx, WORKERS};
use garble_lang::compile::CompilerError;
use garble_lang::literal::Literal;
use garble_lang::token::{SignedNumType, UnsignedNumType};
use serde_json::{json, Map, Value};
use std::collections::{BTreeSet, HashMap, HashSet};

#[derive(Clone, Copy, Debug, PartialEq, Eq)]
enum CTy {
    Bool,
    Int(IntTy),
}

impl CTy {
    fn name(self) -> &'static str {
        match self {
            CTy::Bool => "bool",
            CTy::Int(t) => t.name(),
        }
    }
    fn lit(self, v: i128) -> String {
        match self {
            CTy::Bool => (v != 0).to_string(),
            CTy::Int(t) => t.lit(v),
        }
    }
}

#[derive(Clone, Debug)]
enum CE {
    Lit(i128),
    Ext(usize),
    Ident(usize),
    Add(Box<CE>, Box<CE>),
    Sub(Box<CE>, Box<CE>),
    Max(Vec<CE>),
    Min(Vec<CE>),
}

#[derive(Clone, Debug)]
struct Ext {
    party: String,
    name: String,
    ty: CTy,
    value: i128,
}

#[derive(Clone, Debug)]
struct ConstDef {
    name: String,
    ty: CTy,
    expr: CE,
    value: i128,
}

fn show_ce(e: &CE, ty: CTy, exts: &[Ext], defs: &[ConstDef]) -> String {
    match e {
        CE::Lit(v) => ty.lit(*v),
        CE::Ext(i) => format!("{}::{}", exts[*i].party, exts[*i].name),
        CE::Ident(i) => defs[*i].name.clone(),
        CE::Add(a, b) => format!("{} + {}", show_ce(a, ty, exts, defs), show_ce(b, ty, exts, defs)),
        CE::Sub(a, b) => format!("{} - {}", show_ce(a, ty, exts, defs), show_sub_rhs(b, ty, exts, defs)),
        CE::Max(xs) => format!("max({})", xs.iter().map(|x| show_ce(x, ty, exts, defs)).collect::<Vec<_>>().join(", ")),
        CE::Min(xs) => format!("min({})", xs.iter().map(|x| show_ce(x, ty, exts, defs)).collect::<Vec<_>>().join(", ")),
    }
}

/// `a - (b + c)` cannot be written (no parentheses in const expressions are needed for the
/// generated shapes: the right operand of `-` is always an atom or a call).
fn show_sub_rhs(e: &CE, ty: CTy, exts: &[Ext], defs: &[ConstDef]) -> String {
    show_ce(e, ty, exts, defs)
}

/// Reference evaluation: wrapping arithmetic of the constant's type.
fn eval_ce(e: &CE, ty: CTy, exts: &[Ext], defs: &[ConstDef]) -> i128 {
    let wrap = |v: i128| match ty {
        CTy::Bool => v,
        CTy::Int(t) => t.wrap(v),
    };
    match e {
        CE::Lit(v) => *v,
        CE::Ext(i) => exts[*i].value,
        CE::Ident(i) => defs[*i].value,
        CE::Add(a, b) => wrap(eval_ce(a, ty, exts, defs) + eval_ce(b, ty, exts, defs)),
        CE::Sub(a, b) => wrap(eval_ce(a, ty, exts, defs) - eval_ce(b, ty, exts, defs)),
        CE::Max(xs) => xs.iter().map(|x| eval_ce(x, ty, exts, defs)).max().unwrap(),
        CE::Min(xs) => xs.iter().map(|x| eval_ce(x, ty, exts, defs)).min().unwrap(),
    }
}

/// Does any intermediate sum / difference leave the range of the type (i.e. does wrapping happen)?
fn wraps(e: &CE, ty: CTy, exts: &[Ext], defs: &[ConstDef]) -> bool {
    let CTy::Int(t) = ty else { return false };
    match e {
        CE::Add(a, b) | CE::Sub(a, b) => {
            let (x, y) = (eval_ce(a, ty, exts, defs), eval_ce(b, ty, exts, defs));
            let raw = if matches!(e, CE::Add(..)) { x + y } else { x - y };
            !t.fits(raw) || wraps(a, ty, exts, defs) || wraps(b, ty, exts, defs)
        }
        CE::Max(xs) | CE::Min(xs) => xs.iter().any(|x| wraps(x, ty, exts, defs)),
        _ => false,
    }
}

struct Case {
    exts: Vec<Ext>,
    defs: Vec<ConstDef>,
    with_consts: String,
    substituted: String,
    uses: BTreeSet<&'static str>,
    any_wrap: bool,
    /// (parameter index, literal text of a value of that parameter's type, its size in bits): the
    /// argument must be accepted through the literal API of the program compiled with constants
    literal_probe: Option<(usize, String, usize)>,
}

struct G<'a> {
    rng: &'a mut Rng,
    exts: Vec<Ext>,
    defs: Vec<ConstDef>,
    uses: BTreeSet<&'static str>,
}

impl G<'_> {
    fn value_for(&mut self, ty: CTy, small: bool) -> i128 {
        match ty {
            CTy::Bool => self.rng.below(2) as i128,
            CTy::Int(t) => {
                if small {
                    self.rng.below(7) as i128
                } else if self.rng.chance(1, 2) {
                    let c = [0, 1, 2, t.max_val(), t.max_val() - 1, t.min_val(), t.min_val() + 1, -1, 3, 100];
                    let v = *self.rng.pick(&c);
                    if t.fits(v) {
                        v
                    } else {
                        1
                    }
                } else {
                    ints::random_value(self.rng, t)
                }
            }
        }
    }

    fn new_ext(&mut self, ty: CTy, small: bool) -> usize {
        let party = format!("PARTY_{}", self.rng.below(3));
        let name = format!("X{}", self.exts.len());
        let value = self.value_for(ty, small);
        self.exts.push(Ext { party, name, ty, value });
        self.exts.len() - 1
    }

    fn atom(&mut self, ty: CTy, small: bool) -> CE {
        let same: Vec<usize> = (0..self.defs.len()).filter(|i| self.defs[*i].ty == ty).collect();
        let ext_same: Vec<usize> = (0..self.exts.len()).filter(|i| self.exts[*i].ty == ty).collect();
        match self.rng.weighted(&[3, if same.is_empty() { 0 } else { 4 }, 2, if ext_same.is_empty() { 0 } else { 1 }]) {
            0 => CE::Lit(self.value_for(ty, small)),
            1 => {
                self.uses.insert("reference to an earlier const");
                CE::Ident(*self.rng.pick(&same))
            }
            2 => CE::Ext(self.new_ext(ty, small)),
            _ => CE::Ext(*self.rng.pick(&ext_same)),
        }
    }

    fn expr(&mut self, ty: CTy, depth: u32, small: bool) -> CE {
        if ty == CTy::Bool || depth == 0 {
            return self.atom(ty, small);
        }
        match self.rng.weighted(&[3, 3, 3, 2, 2]) {
            0 => self.atom(ty, small),
            1 => {
                self.uses.insert("+");
                CE::Add(Box::new(self.expr(ty, depth - 1, small)), Box::new(self.expr(ty, depth - 1, small)))
            }
            2 => {
                self.uses.insert("-");
                // right operand: atom or min/max call (no parentheses in const expressions)
                let rhs = if self.rng.bool() {
                    self.atom(ty, small)
                } else {
                    let n = 1 + self.rng.usize_below(3);
                    CE::Max((0..n).map(|_| self.expr(ty, depth - 1, small)).collect())
                };
                CE::Sub(Box::new(self.expr(ty, depth - 1, small)), Box::new(rhs))
            }
            3 => {
                self.uses.insert("max");
                let n = 1 + self.rng.usize_below(3);
                CE::Max((0..n).map(|_| self.expr(ty, depth - 1, small)).collect())
            }
            _ => {
                self.uses.insert("min");
                let n = 1 + self.rng.usize_below(3);
                CE::Min((0..n).map(|_| self.expr(ty, depth - 1, small)).collect())
            }
        }
    }
}

fn gen_case(rng: &mut Rng) -> Case {
    let mut g = G { rng, exts: vec![], defs: vec![], uses: BTreeSet::new() };
    let n = 1 + g.rng.usize_below(5);
    let tys = [
        CTy::Int(ints::USIZE),
        CTy::Int(ints::U8),
        CTy::Int(ints::U16),
        CTy::Int(ints::U32),
        CTy::Int(ints::U64),
        CTy::Int(ints::I8),
        CTy::Int(ints::I16),
        CTy::Int(ints::I32),
        CTy::Int(ints::I64),
        CTy::Bool,
    ];
    let mut any_wrap = false;
    for i in 0..n {
        let ty = if i == 0 && g.rng.chance(2, 3) { tys[0] } else { tys[g.rng.weighted(&[8, 3, 3, 2, 2, 2, 2, 2, 2, 2])] };
        let is_size = ty == CTy::Int(ints::USIZE);
        // sizes must end up small; retry until they do (intermediates may still wrap)
        let mut tries = 0;
        loop {
            tries += 1;
            let saved_exts = g.exts.len();
            let depth = g.rng.weighted(&[2, 3, 3, 1]) as u32;
            let small = is_size && g.rng.chance(3, 4);
            let e = g.expr(ty, depth, small);
            let v = eval_ce(&e, ty, &g.exts, &g.defs);
            if !is_size || (0..=6).contains(&v) || tries > 40 {
                let (e, v) = if is_size && !(0..=6).contains(&v) {
                    g.exts.truncate(saved_exts);
                    let v = g.rng.below(5) as i128;
                    (CE::Lit(v), v)
                } else {
                    (e, v)
                };
                any_wrap |= wraps(&e, ty, &g.exts, &g.defs);
                g.defs.push(ConstDef { name: format!("C{i}"), ty, expr: e, value: v });
                break;
            }
            g.exts.truncate(saved_exts);
        }
    }
    // ---- program body
    let defs = g.defs.clone();
    let exts = g.exts.clone();
    let sizes: Vec<&ConstDef> = defs.iter().filter(|d| d.ty == CTy::Int(ints::USIZE)).collect();
    let mut params: Vec<String> = vec!["s: u16".into()];
    let mut body = String::from("    let mut acc: u64 = s as u64;\n");
    let mut uses = g.uses.clone();
    let single_array_main = !sizes.is_empty() && sizes[0].value >= 1 && g.rng.chance(1, 5);
    if single_array_main {
        uses.insert("number of parties follows a const (single array parameter)");
        params = vec![format!("a0: [u16; {}]", sizes[0].name)];
        body = String::from("    let mut acc: u64 = 7u64;\n    for e in a0 { acc = (acc ^ (e as u64)) << 1u8; }\n");
    } else {
        for (k, sd) in sizes.iter().enumerate() {
            match g.rng.below(5) {
                4 => {
                    // the element of a const-sized repeat literal in a typed position is a compound
                    // expression of suffix-free literals: they get their types from the annotation
                    uses.insert("const-sized repeat literal of suffix-free compound elements under an annotation");
                    match g.rng.below(3) {
                        0 => body += &format!("    let u{k}: [(u16, u8); {n}] = [(300, 7); {n}];\n    for e in u{k} {{ acc = acc + (e.0 as u64) + (e.1 as u64); }}\n", n = sd.name),
                        1 => body += &format!("    let u{k}: [[u64; 2]; {n}] = [[5, 4294967296]; {n}];\n    for e in u{k} {{ acc = acc ^ e[0] ^ e[1]; }}\n", n = sd.name),
                        _ => body += &format!("    let u{k}: [i16; {n}] = [if s > 9u16 {{ 1 + 2 }} else {{ -3 }}; {n}];\n    for e in u{k} {{ acc = acc + ((e as u64) & 255u64); }}\n", n = sd.name),
                    }
                }
                0 => {
                    uses.insert("const-sized array parameter + loop trip count");
                    params.push(format!("a{k}: [u8; {}]", sd.name));
                    body += &format!("    for e in a{k} {{ acc = (acc ^ (e as u64)) << 1u8; }}\n");
                }
                1 => {
                    uses.insert("repeat count");
                    // (the element is evaluated once whatever the count is, 0 included: it can fail)
                    let elem = if g.rng.bool() {
                        uses.insert("repeat count with an element that can fail");
                        "7u8 / (s as u8)"
                    } else {
                        "3u8"
                    };
                    body += &format!("    let r{k} = [{elem}; {}];\n    for e in r{k} {{ acc = acc + (e as u64); }}\n", sd.name);
                }
                2 => {
                    uses.insert("usize const as operand");
                    body += &format!("    acc = acc ^ (({} as u64) << 3u8);\n", sd.name);
                }
                _ => {
                    uses.insert("const-sized array in let type");
                    params.push(format!("b{k}: u8"));
                    body += &format!("    let t{k}: [u8; {}] = [b{k}; {}];\n    for e in t{k} {{ acc = acc + (e as u64) + 1u64; }}\n", sd.name, sd.name);
                }
            }
        }
        if sizes.len() >= 2 && sizes[0].value >= 1 && sizes[1].value >= 1 && g.rng.chance(1, 3) {
            uses.insert("join sizes");
            // (the sizes are sometimes written as const expressions)
            let sa = if g.rng.chance(1, 3) { format!("const {{ {} + 0usize }}", sizes[0].name) } else { sizes[0].name.clone() };
            let sb = if g.rng.chance(1, 3) { format!("const {{ 0usize + {} }}", sizes[1].name) } else { sizes[1].name.clone() };
            params.push(format!("ja: [(u8, u8); {sa}]"));
            params.push(format!("jb: [(u8, u16); {sb}]"));
            body += "    for joined in join_iter(ja, jb) { let ((k1, x), (k2, y)) = joined; acc = acc + (x as u64) + (y as u64) + (k1 as u64); }\n";
        }
    }
    // an array size written as an inline const expr `const { A - B + C }` whose intermediate result
    // underflows (half of the time): evaluated by the compiler's second const evaluator (sizes of
    // types); the substituted program gets the value computed here in wrapping arithmetic
    let mut inline_size: Option<(String, i128)> = None;
    let mut literal_probe: Option<(usize, String, usize)> = None;
    if !single_array_main && g.rng.chance(1, 2) {
        let (a_text, a) = match sizes.first() {
            Some(sd) if g.rng.bool() => (sd.name.clone(), sd.value),
            _ => {
                let a = g.rng.below(4) as i128;
                (format!("{a}usize"), a)
            }
        };
        let target = 1 + g.rng.below(4) as i128;
        let underflow = g.rng.bool();
        let b = if underflow { a + 1 + g.rng.below(3) as i128 } else { g.rng.below(a as u64 + 1) as i128 };
        let c = target + b - a;
        if c >= 0 {
            // (a quarter of the sizes overflows 2^32 inside min / max, where 32-bit and wider
            // arithmetic give different results)
            let wraps_in_min = g.rng.chance(1, 4);
            let text = if wraps_in_min {
                // (only forms whose value stays small under either arithmetic: the check runs in-process)
                if g.rng.bool() {
                    format!("min(4294967295usize + {}usize, {}usize)", target + 1, target + 7)
                } else {
                    format!("min({}usize, 4294967295usize + {}usize) + 0usize", target + 5, target + 1)
                }
            } else if underflow || g.rng.bool() {
                format!("{a_text} - {b}usize + {c}usize")
            } else {
                format!("{c}usize + {a_text} - {b}usize")
            };
            if wraps_in_min {
                uses.insert("inline const-expr array size that wraps at 2^32 inside min / max");
            }
            uses.insert(if underflow { "inline const-expr array size with an underflowing intermediate" } else { "inline const-expr array size" });
            // the element type is itself a const-sized array in half of the cases (when a size >= 1 exists)
            let inner = sizes.iter().find(|sd| sd.value >= 1 && sd.value <= 4).filter(|_| g.rng.bool());
            let row = |k: i128, len: i128| format!("[{}]", (0..len).map(|j| format!("{}u8", (7 * k + j + 1) % 256)).collect::<Vec<_>>().join(", "));
            match inner {
                Some(sd) => {
                    uses.insert("inline const-expr array size over const-sized rows");
                    params.push(format!("ia: [[u8; {}]; INLINESIZE]", sd.name));
                    body += "    for row in ia { for e in row { acc = (acc ^ (e as u64)) << 1u8; } }\n";
                    let text_lit = format!("[{}]", (0..target).map(|k| row(k, sd.value)).collect::<Vec<_>>().join(", "));
                    literal_probe = Some((params.len() - 1, text_lit, (8 * target * sd.value) as usize));
                }
                None => {
                    params.push("ia: [u8; INLINESIZE]".into());
                    body += "    for e in ia { acc = (acc ^ (e as u64)) << 1u8; }\n";
                    literal_probe = Some((params.len() - 1, row(0, target), (8 * target) as usize));
                }
            }
            inline_size = Some((text, target));
        }
    }
    for d in defs.iter().filter(|d| d.ty != CTy::Int(ints::USIZE)) {
        match d.ty {
            CTy::Bool => {
                uses.insert("bool const");
                body += &format!("    if {} {{ acc = acc ^ 1024u64; }}\n", d.name);
            }
            CTy::Int(t) => {
                uses.insert(if t.signed { "signed const as operand" } else { "unsigned const as operand" });
                body += &format!("    acc = (acc << 1u8) ^ ({} as u64);\n", d.name);
            }
        }
    }
    body += "    acc\n";
    let fn_text = format!("pub fn main({}) -> u64 {{\n{}}}\n", params.join(", "), body);
    let mut with_consts = String::new();
    for d in &defs {
        with_consts += &format!("const {}: {} = {};\n", d.name, d.ty.name(), show_ce(&d.expr, d.ty, &exts, &defs));
    }
    // (a third of the inline sizes is written as the plain number instead: const-sized rows inside
    // an array of fixed size)
    let plain_outer_size = g.rng.chance(1, 3);
    if plain_outer_size && inline_size.is_some() && fn_text.contains("]; INLINESIZE]") {
        uses.insert("const-sized rows inside an array of fixed size");
    }
    with_consts += &match &inline_size {
        Some((_, target)) if plain_outer_size => fn_text.replace("INLINESIZE", &target.to_string()),
        Some((text, _)) => fn_text.replace("INLINESIZE", &format!("const {{ {text} }}")),
        None => fn_text.clone(),
    };
    // substituted program: identifiers replaced token-for-token by suffixed literals
    let mut substituted = String::new();
    let mut tok = String::new();
    let flush = |tok: &mut String, out: &mut String| {
        if !tok.is_empty() {
            match defs.iter().find(|d| d.name == *tok) {
                Some(d) => out.push_str(&d.ty.lit(d.value)),
                None => out.push_str(tok),
            }
            tok.clear();
        }
    };
    for ch in fn_text.chars() {
        if ch.is_ascii_alphanumeric() || ch == '_' {
            tok.push(ch);
        } else {
            flush(&mut tok, &mut substituted);
            substituted.push(ch);
        }
    }
    flush(&mut tok, &mut substituted);
    if let Some((_, value)) = &inline_size {
        substituted = substituted.replace("INLINESIZE", &value.to_string());
    }
    // the join sizes that are written as `const { N + 0usize }` / `const { 0usize + N }` become plain
    // numbers in the substituted program (the const-expression form must not be what decides acceptance)
    for (pre, post) in [("const { ", "usize + 0usize }"), ("const { 0usize + ", "usize }")] {
        let mut out = String::new();
        let mut rest = substituted.as_str();
        while let Some(pos) = rest.find(pre) {
            let after = &rest[pos + pre.len()..];
            let digits: String = after.chars().take_while(|c| c.is_ascii_digit()).collect();
            if !digits.is_empty() && after[digits.len()..].starts_with(post) {
                out.push_str(&rest[..pos]);
                out.push_str(&digits);
                rest = &after[digits.len() + post.len()..];
            } else {
                out.push_str(&rest[..pos + pre.len()]);
                rest = after;
            }
        }
        out.push_str(rest);
        substituted = out;
    }
    Case { exts, defs, with_consts, substituted, uses, any_wrap, literal_probe }
}

fn literal_of(ty: CTy, v: i128) -> Literal {
    match ty {
        CTy::Bool => {
            if v != 0 {
                Literal::True
            } else {
                Literal::False
            }
        }
        CTy::Int(t) if t.signed => Literal::NumSigned(
            v as i64,
            match t.bits {
                8 => SignedNumType::I8,
                16 => SignedNumType::I16,
                32 => SignedNumType::I32,
                _ => SignedNumType::I64,
            },
        ),
        CTy::Int(t) => Literal::NumUnsigned(
            v as u64,
            if t.is_usize {
                UnsignedNumType::Usize
            } else {
                match t.bits {
                    8 => UnsignedNumType::U8,
                    16 => UnsignedNumType::U16,
                    32 => UnsignedNumType::U32,
                    _ => UnsignedNumType::U64,
                }
            },
        ),
    }
}

fn consts_map(exts: &[Ext], skip: &HashSet<usize>, mistype: &HashSet<usize>, extra: bool) -> garble_lang::GarbleConsts {
    let mut m: garble_lang::GarbleConsts = HashMap::new();
    for (i, e) in exts.iter().enumerate() {
        if skip.contains(&i) {
            continue;
        }
        let lit = if mistype.contains(&i) {
            // a literal of another type
            match e.ty {
                CTy::Bool => Literal::NumUnsigned(1, UnsignedNumType::U8),
                CTy::Int(t) if t == ints::U8 => Literal::NumUnsigned(e.value as u64 & 0xff, UnsignedNumType::U16),
                CTy::Int(t) if t.signed => Literal::NumUnsigned(1, UnsignedNumType::U8),
                CTy::Int(_) => {
                    if i % 2 == 0 {
                        Literal::NumUnsigned((e.value & 0xff) as u64, UnsignedNumType::U8)
                    } else {
                        Literal::True
                    }
                }
            }
        } else {
            literal_of(e.ty, e.value)
        };
        m.entry(e.party.clone()).or_default().insert(e.name.clone(), lit);
    }
    if extra {
        m.entry("PARTY_0".into()).or_default().insert("UNUSED".into(), Literal::NumUnsigned(9, UnsignedNumType::U32));
        m.entry("NOBODY".into()).or_default().insert("X0".into(), Literal::True);
        // extra constants of kinds that no declared constant can have, naming definitions that the
        // program does not contain: they are ignored as well
        use garble_lang::literal::VariantLiteral;
        let e = m.entry("PARTY_1".into()).or_default();
        e.insert("UNUSED_ENUM".into(), Literal::Enum("NoSuchEnum".into(), "V".into(), VariantLiteral::Unit));
        e.insert("UNUSED_ENUM2".into(), Literal::Enum("NoSuchEnum".into(), "W".into(), VariantLiteral::Tuple(vec![Literal::True])));
        e.insert("UNUSED_STRUCT".into(), Literal::Struct("NoSuchStruct".into(), vec![("a".into(), Literal::NumUnsigned(1, UnsignedNumType::U8))]));
        e.insert("UNUSED_TUPLE".into(), Literal::Tuple(vec![Literal::False, Literal::NumSigned(-1, garble_lang::token::SignedNumType::I8)]));
        e.insert("UNUSED_ARRAY".into(), Literal::Array(vec![]));
        e.insert("UNUSED_RANGE".into(), Literal::Range(5, 2, UnsignedNumType::U8));
        e.insert("UNUSED_UNSPECIFIED".into(), Literal::NumUnsigned(7, UnsignedNumType::Unspecified));
    }
    m
}

#[derive(Default)]
struct St {
    counts: Counts,
    uses: Counts,
    distinct: HashSet<u64>,
    samples: Vec<Value>,
    lanes: u64,
}

/// Outputs of const-sized array types (also nested, also with zero-sized elements) decode to the
/// value with the lengths that the constants give.
fn output_probe(ctx: &Ctx, rng: &mut Rng, st: &mut St) {
    let (r, c) = (rng.usize_below(4), rng.usize_below(4));
    let src = "const R: usize = PARTY_0::R;\nconst C: usize = PARTY_1::C;\nstruct Z {}\npub fn main(a: [[u8; C]; R], b: [[bool; const { C + 0usize }]; const { R + 0usize }], z: [Z; R], zz: [[Z; C]; const { R }], x: u8) -> ([[u8; C]; R], [[bool; const { C + 0usize }]; const { R + 0usize }], [Z; R], [[Z; C]; const { R }], u8) {\n    (a, b, z, zz, x)\n}\n";
    let mut consts: garble_lang::GarbleConsts = HashMap::new();
    consts.entry("PARTY_0".into()).or_default().insert("R".into(), Literal::NumUnsigned(r as u64, UnsignedNumType::Usize));
    consts.entry("PARTY_1".into()).or_default().insert("C".into(), Literal::NumUnsigned(c as u64, UnsignedNumType::Usize));
    let rows = |elem: &str| format!("[{}]", vec![format!("[{}]", vec![elem; c].join(", ")); r].join(", "));
    let want = format!("({}, {}, [{}], {}, 0)", rows("0"), rows("false"), vec!["Z {}"; r].join(", "), rows("Z {}"));
    let case = json!({"program": src, "R": r, "C": c, "expected_output_for_zero_inputs": want});
    match catch(|| garble_lang::compile_with_constants(src, consts)) {
        Err(p) => ctx.violation(&format!("compile_with_constants panicked on the output probe: {p}"), case),
        Ok(Err(e)) => {
            st.counts.inc("output probe: rejected");
            if st.counts.get("output probe: rejected") <= 1 {
                ctx.inconclusive(&format!("output probe rejected: {}", e.prettify(src).chars().take(300).collect::<String>()));
            }
        }
        Ok(Ok(prg)) => {
            let circ = gl::ssa(&prg);
            let inputs: Vec<Vec<bool>> = circ.input_gates.iter().map(|n| vec![false; *n]).collect();
            match catch(|| {
                let out = prg.circuit.eval(&inputs);
                prg.parse_output(&out).map(|l| l.to_string())
            }) {
                Err(p) => ctx.violation(&format!("output probe: eval / parse_output panicked: {p}"), case),
                Ok(Err(e)) => ctx.violation(&format!("output probe: parse_output fails: {e:?}"), case),
                Ok(Ok(text)) => {
                    st.counts.inc("output probe: decoded outputs of const-sized types compared");
                    if text != want {
                        let mut case = case;
                        case["decoded"] = json!(text);
                        ctx.violation("output probe: the decoded output of a const-sized array type does not have the lengths the constants give", case);
                    }
                }
            }
        }
    }
}

/// Field type of a definition in the definition probe.
enum DT {
    U8,
    Bool,
    /// array whose size is the constant (spelled `N` or `const { N + 0usize }`)
    ArrN(Box<DT>, bool),
    Arr2(Box<DT>),
    Tup(Vec<DT>),
}

impl DT {
    fn gen(rng: &mut Rng, depth: u32) -> DT {
        match rng.weighted(&[2, 2, if depth > 0 { 5 } else { 0 }, if depth > 0 { 2 } else { 0 }, if depth > 0 { 5 } else { 0 }]) {
            0 => DT::U8,
            1 => DT::Bool,
            2 => DT::ArrN(Box::new(DT::gen(rng, depth - 1)), rng.chance(1, 3)),
            3 => DT::Arr2(Box::new(DT::gen(rng, depth - 1))),
            _ => DT::Tup((0..2 + rng.usize_below(2)).map(|_| DT::gen(rng, depth - 1)).collect()),
        }
    }
    /// Type text; `n`: None = with the constant, Some(n) = substituted.
    fn ty(&self, n: Option<usize>) -> String {
        match self {
            DT::U8 => "u8".into(),
            DT::Bool => "bool".into(),
            DT::ArrN(e, as_expr) => match n {
                Some(n) => format!("[{}; {n}]", e.ty(Some(n))),
                None if *as_expr => format!("[{}; const {{ N + 0usize }}]", e.ty(None)),
                None => format!("[{}; N]", e.ty(None)),
            },
            DT::Arr2(e) => format!("[{}; 2]", e.ty(n)),
            DT::Tup(fs) => format!("({})", fs.iter().map(|f| f.ty(n)).collect::<Vec<_>>().join(", ")),
        }
    }
    fn value(&self, rng: &mut Rng, n: usize) -> String {
        match self {
            DT::U8 => rng.usize_below(256).to_string(),
            DT::Bool => if rng.bool() { "true".into() } else { "false".into() },
            DT::ArrN(e, _) => format!("[{}]", (0..n).map(|_| e.value(rng, n)).collect::<Vec<_>>().join(", ")),
            DT::Arr2(e) => format!("[{}, {}]", e.value(rng, n), e.value(rng, n)),
            DT::Tup(fs) => format!("({})", fs.iter().map(|f| f.value(rng, n)).collect::<Vec<_>>().join(", ")),
        }
    }
    fn bits(&self, n: usize) -> usize {
        match self {
            DT::U8 => 8,
            DT::Bool => 1,
            DT::ArrN(e, _) => n * e.bits(n),
            DT::Arr2(e) => 2 * e.bits(n),
            DT::Tup(fs) => fs.iter().map(|f| f.bits(n)).sum(),
        }
    }
    fn mentions_const(&self) -> bool {
        match self {
            DT::U8 | DT::Bool => false,
            DT::ArrN(..) => true,
            DT::Arr2(e) => e.mentions_const(),
            DT::Tup(fs) => fs.iter().any(|f| f.mentions_const()),
        }
    }
}

/// Struct and enum definitions whose fields mention the constant in arbitrary positions (directly,
/// inside tuples next to members that do not depend on it, inside arrays of fixed size): values of
/// the parameter types go through the literal API of the program compiled with the constant and of
/// the substituted program, and through both circuits.
fn definition_probe(ctx: &Ctx, rng: &mut Rng, st: &mut St) {
    let n = if rng.chance(1, 6) { 0 } else { 1 + rng.usize_below(3) };
    let fields: Vec<DT> = (0..1 + rng.usize_below(3)).map(|_| DT::gen(rng, 2)).collect();
    let payload: Vec<DT> = (0..1 + rng.usize_below(2)).map(|_| DT::gen(rng, 2)).collect();
    if !fields.iter().chain(payload.iter()).any(|f| f.mentions_const()) {
        st.counts.inc("definition probe: no field mentions the constant (skipped)");
        return;
    }
    let program = |sub: Option<usize>| {
        let mut t = String::new();
        if sub.is_none() {
            t.push_str("const N: usize = PARTY_0::N;\n");
        }
        t.push_str(&format!("struct Row {{ {} }}\n", fields.iter().enumerate().map(|(i, f)| format!("f{i}: {}", f.ty(sub))).collect::<Vec<_>>().join(", ")));
        t.push_str(&format!("enum Opt {{ Nothing, Some({}) }}\n", payload.iter().map(|f| f.ty(sub)).collect::<Vec<_>>().join(", ")));
        t.push_str("pub fn main(r: Row, o: Opt, x: u8) -> (Row, Opt, u8) {\n    (r, o, x)\n}\n");
        t
    };
    let (with_text, sub_text) = (program(None), program(Some(n)));
    let row = format!("Row {{ {} }}", fields.iter().enumerate().map(|(i, f)| format!("f{i}: {}", f.value(rng, n))).collect::<Vec<_>>().join(", "));
    let opt = if rng.chance(1, 4) { "Opt::Nothing".to_string() } else { format!("Opt::Some({})", payload.iter().map(|f| f.value(rng, n)).collect::<Vec<_>>().join(", ")) };
    let args = [row, opt, rng.usize_below(256).to_string()];
    let sizes = [fields.iter().map(|f| f.bits(n)).sum::<usize>(), 1 + payload.iter().map(|f| f.bits(n)).sum::<usize>(), 8];
    let case = json!({"program": with_text, "N": n, "substituted_program": sub_text, "arguments": args});
    let mut consts: garble_lang::GarbleConsts = HashMap::new();
    consts.entry("PARTY_0".into()).or_default().insert("N".into(), Literal::NumUnsigned(n as u64, UnsignedNumType::Usize));
    let a = catch(|| garble_lang::compile_with_constants(&with_text, consts));
    let b = catch(|| garble_lang::compile(&sub_text));
    let (a, b) = match (a, b) {
        (Ok(Ok(a)), Ok(Ok(b))) => (a, b),
        (Ok(Err(_)), Ok(Err(_))) => {
            st.counts.inc("definition probe: both rejected");
            return;
        }
        (a, b) => {
            let show = |r: &Result<Result<garble_lang::GarbleProgram, garble_lang::Error>, String>| match r {
                Ok(Ok(_)) => "compiled".to_string(),
                Ok(Err(e)) => format!("rejected: {}", format!("{e:?}").chars().take(300).collect::<String>()),
                Err(p) => format!("panicked: {p}"),
            };
            let mut case = case;
            case["with_constants"] = json!(show(&a));
            case["substituted"] = json!(show(&b));
            ctx.violation("definition probe: the program with a constant in its definitions and the substituted program are not treated alike", case);
            return;
        }
    };
    let mut outs = vec![];
    for (which, prg) in [("program with constants", &a), ("substituted program", &b)] {
        let mut inputs: Vec<Vec<bool>> = vec![];
        for (i, text) in args.iter().enumerate() {
            let parsed = catch(|| prg.parse_arg(i, text).map(|arg| (arg.as_bits(), arg.as_literal())));
            let (bits, lit) = match parsed {
                Ok(Ok((bits, lit))) if bits.len() == sizes[i] => (bits, lit),
                other => {
                    let mut case = case.clone();
                    case["outcome"] = json!(format!("{other:?}").chars().take(400).collect::<String>());
                    case["parameter"] = json!(i);
                    ctx.violation(&format!("definition probe: {which}: parse_arg does not accept a value of the parameter's type (or gives it the wrong size)"), case);
                    return;
                }
            };
            match catch(|| prg.literal_arg(i, lit.clone()).map(|arg| arg.as_bits())) {
                Ok(Ok(b2)) if b2 == bits => {}
                other => {
                    let mut case = case.clone();
                    case["outcome"] = json!(format!("{other:?}").chars().take(400).collect::<String>());
                    case["parameter"] = json!(i);
                    ctx.violation(&format!("definition probe: {which}: literal_arg refuses (or encodes differently) the value that parse_arg accepted"), case);
                    return;
                }
            }
            inputs.push(bits);
        }
        let out = catch(|| {
            let out = prg.circuit.eval(&inputs);
            let text = prg.parse_output(&out).map(|l| l.to_string());
            (out, text)
        });
        match out {
            Ok((bits, Ok(text))) => outs.push((inputs, bits, text)),
            other => {
                let mut case = case.clone();
                case["outcome"] = json!(format!("{other:?}").chars().take(400).collect::<String>());
                ctx.violation(&format!("definition probe: {which}: evaluation / parse_output fails"), case);
                return;
            }
        }
    }
    st.counts.inc("definition probe: values compared through both programs");
    if outs[0] != outs[1] {
        let mut case = case;
        case["with_constants"] = json!(outs[0].2);
        case["substituted"] = json!(outs[1].2);
        ctx.violation("definition probe: argument bits, output bits or decoded output differ between the program with constants and the substituted program", case);
        return;
    }
    // the identity program returns the arguments: the value bits after the panic record are the inputs
    let flat: Vec<bool> = outs[0].0.iter().flatten().copied().collect();
    if outs[0].1.len() < flat.len() || outs[0].1[outs[0].1.len() - flat.len()..] != flat[..] {
        ctx.violation("definition probe: the identity program does not return its argument bits", case);
    }
}

/// A function whose only parameter is an array is compiled with one party per element: the number of
/// parties follows the constants however the size is spelled (`N`, `const { N + 1usize }`, ..), exactly
/// as in the substituted program.
fn sole_array_probe(ctx: &Ctx, rng: &mut Rng, st: &mut St) {
    let n = rng.usize_below(4);
    let (spelling, size): (String, usize) = match rng.below(6) {
        0 => ("N".into(), n),
        1 => ("const { N }".into(), n),
        2 => ("const { N + 1usize }".into(), n + 1),
        3 => ("const { 2usize + N - 1usize }".into(), n + 1),
        4 => ("const { max(N, 1usize) }".into(), n.max(1)),
        _ => ("const { N + N }".into(), 2 * n),
    };
    let (elem, elem_plain, elem_bits): (String, String, usize) = match rng.below(4) {
        0 => ("u8".into(), "u8".into(), 8),
        1 => ("bool".into(), "bool".into(), 1),
        2 => ("(u16, bool)".into(), "(u16, bool)".into(), 17),
        _ => ("[u8; N]".into(), format!("[u8; {n}]"), 8 * n),
    };
    if size == 0 || elem_bits == 0 {
        st.counts.inc("sole array probe: no input bits (skipped)");
        return;
    }
    let with_text = format!("const N: usize = PARTY_0::N;\npub fn main(a: [{elem}; {spelling}]) -> [{elem}; {spelling}] {{\n    a\n}}\n");
    let sub_text = format!("pub fn main(a: [{elem_plain}; {size}]) -> [{elem_plain}; {size}] {{\n    a\n}}\n");
    let case = json!({"program": with_text, "N": n, "substituted_program": sub_text});
    let mut consts: garble_lang::GarbleConsts = HashMap::new();
    consts.entry("PARTY_0".into()).or_default().insert("N".into(), Literal::NumUnsigned(n as u64, UnsignedNumType::Usize));
    let a = catch(|| garble_lang::compile_with_constants(&with_text, consts));
    let b = catch(|| garble_lang::compile(&sub_text));
    match (a, b) {
        (Ok(Ok(a)), Ok(Ok(b))) => {
            st.counts.inc("sole array probe: party sizes compared");
            let want = vec![elem_bits; size];
            let (ga, gb) = (gl::ssa(&a).input_gates.clone(), gl::ssa(&b).input_gates.clone());
            if ga != gb || ga != want {
                let mut case = case;
                case["parties_with_constants"] = json!(ga);
                case["parties_substituted"] = json!(gb);
                case["one_party_per_element"] = json!(want);
                ctx.violation("sole array probe: the parties of a function whose only parameter is a const-sized array do not follow the constants (or differ from the substituted program)", case);
            }
        }
        (Ok(Err(_)), Ok(Err(_))) => st.counts.inc("sole array probe: both rejected"),
        (a, b) => {
            let show = |r: &Result<Result<garble_lang::GarbleProgram, garble_lang::Error>, String>| match r {
                Ok(Ok(_)) => "compiled".to_string(),
                Ok(Err(e)) => format!("rejected: {}", format!("{e:?}").chars().take(300).collect::<String>()),
                Err(p) => format!("panicked: {p}"),
            };
            let mut case = case;
            case["with_constants"] = json!(show(&a));
            case["substituted"] = json!(show(&b));
            ctx.violation("sole array probe: the program with constants and the substituted program are not treated alike", case);
        }
    }
}

fn one_case(ctx: &Ctx, rng: &mut Rng, st: &mut St) {
    if rng.chance(1, 10) {
        output_probe(ctx, rng, st);
    }
    if rng.chance(1, 10) {
        sole_array_probe(ctx, rng, st);
    }
    if rng.chance(1, 6) {
        definition_probe(ctx, rng, st);
    }
    let case = gen_case(rng);
    st.distinct.insert(crate::util::fnv(case.with_consts.as_bytes()));
    for u in &case.uses {
        st.uses.inc(u);
    }
    if case.any_wrap {
        st.uses.inc("an intermediate sum/difference wraps in the const's type");
    }
    let describe = || {
        json!({
            "program": case.with_consts,
            "consts": case.exts.iter().map(|e| format!("{}::{} = {}", e.party, e.name, e.ty.lit(e.value))).collect::<Vec<_>>(),
            "reference_values": case.defs.iter().map(|d| format!("{} = {}", d.name, d.ty.lit(d.value))).collect::<Vec<_>>(),
            "substituted_program": case.substituted,
        })
    };
    let none = HashSet::new();
    if std::env::var("VERIF_TRACE_CASES").is_ok() {
        eprintln!("CASE\n{}\n{:?}", case.with_consts, case.exts.iter().map(|e| format!("{}::{} = {}", e.party, e.name, e.ty.lit(e.value))).collect::<Vec<_>>());
    }
    // ---- equivalence with the substituted program
    let with = gl::compile_consts(&case.with_consts, true, false, consts_map(&case.exts, &none, &none, rng.chance(1, 3)));
    let plain = gl::compile(&case.substituted, true, false);
    match (&with, &plain) {
        (CompileOutcome::Crashed(m), _) => {
            st.counts.inc("compile with constants: crashed");
            ctx.violation(&format!("compile_with_constants panicked: {m}"), describe());
            return;
        }
        (_, CompileOutcome::Crashed(m)) => {
            st.counts.inc("substituted program: crashed");
            ctx.violation(&format!("compiling the substituted program panicked: {m}"), describe());
            return;
        }
        (CompileOutcome::Rejected(k1, m1), CompileOutcome::Ok(_)) => {
            st.counts.inc("rejected with constants, accepted substituted");
            ctx.violation(&format!("program with constants is rejected ({k1}) although the substituted program compiles"), {
                let mut d = describe();
                d["message"] = json!(m1.chars().take(600).collect::<String>());
                d
            });
            return;
        }
        (CompileOutcome::Ok(_), CompileOutcome::Rejected(k2, m2)) => {
            st.counts.inc("accepted with constants, substituted rejected");
            // may be a generator problem (e.g. zero-sized array): inconclusive, not a violation
            if st.counts.get("accepted with constants, substituted rejected") <= 2 {
                ctx.inconclusive(&format!("substituted program rejected ({k2}): {}\n{}", case.substituted, m2.chars().take(300).collect::<String>()));
            }
            return;
        }
        (CompileOutcome::Rejected(..), CompileOutcome::Rejected(..)) => {
            st.counts.inc("both rejected");
            return;
        }
        (CompileOutcome::Ok(a), CompileOutcome::Ok(b)) => {
            st.counts.inc("both compiled");
            // arguments of const-sized parameter types through the literal API
            if let Some((idx, text, n_bits)) = &case.literal_probe {
                for (which, prg) in [("program with constants", a), ("substituted program", b)] {
                    match crate::util::catch(|| prg.parse_arg(*idx, text).map(|arg| arg.as_bits().len())) {
                        Ok(Ok(n)) if n == *n_bits => st.counts.inc("argument literal of a const-sized parameter accepted"),
                        other => {
                            let mut d = describe();
                            d["argument"] = json!({"parameter": idx, "literal": text, "expected_bits": n_bits, "outcome": format!("{other:?}").chars().take(400).collect::<String>()});
                            ctx.violation(&format!("{which}: a value of a const-sized parameter type is not accepted by parse_arg (or has the wrong size)"), d);
                            return;
                        }
                    }
                    let lit = crate::util::catch(|| prg.parse_arg(*idx, text).map(|arg| arg.as_literal()));
                    if let Ok(Ok(lit)) = lit {
                        match crate::util::catch(|| prg.literal_arg(*idx, lit.clone()).map(|arg| arg.as_bits().len())) {
                            Ok(Ok(n)) if n == *n_bits => {}
                            other => {
                                let mut d = describe();
                                d["argument"] = json!({"parameter": idx, "literal": text, "expected_bits": n_bits, "outcome": format!("{other:?}").chars().take(400).collect::<String>()});
                                ctx.violation(&format!("{which}: a value of a const-sized parameter type is refused by literal_arg (type test against the parameter type)"), d);
                                return;
                            }
                        }
                    }
                }
            }
            let (ca, cb) = (gl::ssa(a), gl::ssa(b));
            if ca.input_gates != cb.input_gates {
                ctx.violation(&format!("party sizes differ: with constants {:?}, substituted {:?}", ca.input_gates, cb.input_gates), describe());
                return;
            }
            if ca.output_gates.len() != cb.output_gates.len() {
                ctx.violation("output sizes differ between the program with constants and the substituted program", describe());
                return;
            }
            let n_in: usize = ca.input_gates.iter().sum();
            for _ in 0..4 {
                let inputs: Vec<u64> = (0..n_in).map(|_| if rng.chance(1, 8) { 0 } else { rng.next_u64() }).collect();
                let (oa, ob) = match (bits::eval_ssa(ca, &inputs), bits::eval_ssa(cb, &inputs)) {
                    (Ok(x), Ok(y)) => (x, y),
                    (x, y) => {
                        ctx.violation(&format!("circuit cannot be evaluated: {:?} {:?}", x.err(), y.err()), describe());
                        return;
                    }
                };
                st.lanes += 64;
                let pan = oa[0];
                let mut diff = pan ^ ob[0];
                for k in 1..33 {
                    diff |= (oa[k] ^ ob[k]) & pan; // reason
                }
                for k in gl::PANIC_BITS..oa.len() {
                    diff |= (oa[k] ^ ob[k]) & !pan;
                }
                if diff != 0 {
                    let l = diff.trailing_zeros() as usize;
                    let mut d = describe();
                    d["input_bits"] = json!(bits::lane(&inputs, l).iter().map(|b| if *b { '1' } else { '0' }).collect::<String>());
                    d["with_constants_output"] = json!(bits::lane(&oa, l)[gl::PANIC_BITS..].iter().map(|b| if *b { '1' } else { '0' }).collect::<String>());
                    d["substituted_output"] = json!(bits::lane(&ob, l)[gl::PANIC_BITS..].iter().map(|b| if *b { '1' } else { '0' }).collect::<String>());
                    ctx.violation("program with constants and substituted program differ on an input", d);
                    return;
                }
            }
            if st.samples.len() < 2 && case.defs.len() >= 3 && case.uses.len() >= 4 {
                st.samples.push(describe());
            }
        }
    }
    // ---- a program whose constants are all defined by the program itself also compiles through the
    //      plain `compile` entry point, and its const-sized arguments / outputs can be parsed
    if case.exts.is_empty() {
        match catch(|| garble_lang::compile(&case.with_consts)) {
            Err(p) => {
                ctx.violation(&format!("compile() panicked on a program whose constants are all internal: {p}"), describe());
                return;
            }
            Ok(Err(_)) => st.counts.inc("plain compile(): rejected"),
            Ok(Ok(prg)) => {
                st.counts.inc("plain compile(): compiled");
                if let Some((idx, text, n_bits)) = &case.literal_probe {
                    match catch(|| prg.parse_arg(*idx, text).map(|arg| arg.as_bits().len())) {
                        Ok(Ok(n)) if n == *n_bits => st.counts.inc("plain compile(): argument literal of a const-sized parameter accepted"),
                        other => {
                            let mut d = describe();
                            d["argument"] = json!({"parameter": idx, "literal": text, "expected_bits": n_bits, "outcome": format!("{other:?}").chars().take(400).collect::<String>()});
                            ctx.violation("program compiled with compile(): a value of a const-sized parameter type is not accepted by parse_arg (or panics, or has the wrong size)", d);
                            return;
                        }
                    }
                }
                let c = gl::ssa(&prg);
                let inputs: Vec<Vec<bool>> = c.input_gates.iter().map(|n| vec![false; *n]).collect();
                if let Err(p) = catch(|| {
                    let out = prg.circuit.eval(&inputs);
                    let _ = prg.parse_output(&out);
                }) {
                    ctx.violation(&format!("program compiled with compile(): eval / parse_output panicked: {p}"), describe());
                    return;
                }
            }
        }
    }
    // ---- one value of another party has one type: defining a second const of another type by it is an error
    if !case.exts.is_empty() && rng.chance(1, 6) {
        let e = &case.exts[rng.usize_below(case.exts.len())];
        let other = match &*e.ty.name() {
            "bool" => "u8",
            "u8" => "u16",
            "usize" => "u32",
            _ => "u8",
        };
        let src2 = format!("const ZZ9: {other} = {}::{};\n{}", e.party, e.name, case.with_consts);
        match catch(|| garble_lang::compile_with_constants(&src2, consts_map(&case.exts, &none, &none, false))) {
            Err(p) => {
                ctx.violation(&format!("compile_with_constants panicked on a program that uses one external value at two types: {p}"), json!({"program": src2}));
                return;
            }
            Ok(Ok(_)) => {
                ctx.violation("a program that defines consts of two different types by the same external value is compiled (the supplied value cannot have both types)", json!({"program": src2, "value": format!("{}::{} = {}", e.party, e.name, e.ty.lit(e.value))}));
                return;
            }
            Ok(Err(_)) => st.counts.inc("one external value at two types: rejected"),
        }
    }
    // ---- fault injection
    if case.exts.is_empty() {
        return;
    }
    let mode = rng.below(4);
    let mut skip = HashSet::new();
    let mut mistype = HashSet::new();
    match mode {
        0 => {
            skip.insert(rng.usize_below(case.exts.len()));
        }
        1 => {
            // a whole party
            let p = case.exts[rng.usize_below(case.exts.len())].party.clone();
            for (i, e) in case.exts.iter().enumerate() {
                if e.party == p {
                    skip.insert(i);
                }
            }
        }
        2 => {
            mistype.insert(rng.usize_below(case.exts.len()));
            if case.exts.len() > 1 && rng.bool() {
                mistype.insert(rng.usize_below(case.exts.len()));
            }
        }
        _ => {
            // mixed: some missing, some mistyped
            skip.insert(rng.usize_below(case.exts.len()));
            let j = rng.usize_below(case.exts.len());
            if !skip.contains(&j) {
                mistype.insert(j);
            }
        }
    }
    let consts = consts_map(&case.exts, &skip, &mistype, false);
    let src = case.with_consts.clone();
    let r = catch(|| garble_lang::compile_with_constants(&src, consts));
    let fault = json!({
        "program": case.with_consts,
        "missing": skip.iter().map(|i| format!("{}::{}", case.exts[*i].party, case.exts[*i].name)).collect::<Vec<_>>(),
        "mistyped": mistype.iter().map(|i| format!("{}::{} (declared {})", case.exts[*i].party, case.exts[*i].name, case.exts[*i].ty.name())).collect::<Vec<_>>(),
    });
    match r {
        Err(p) => {
            st.counts.inc("fault injection: panicked");
            ctx.violation(&format!("compile_with_constants panicked on missing / mistyped constants: {p}"), fault);
        }
        Ok(Ok(_)) => {
            st.counts.inc("fault injection: accepted");
            ctx.violation("compilation succeeded although a declared constant is missing or has the wrong type", fault);
        }
        Ok(Err(e)) => {
            let mut named_missing: BTreeSet<String> = BTreeSet::new();
            let mut named_mistyped = 0usize;
            let mut is_compiler_error = false;
            if let garble_lang::Error::CompileTimeError(garble_lang::CompileTimeError::CompilerError(errs)) = &e {
                is_compiler_error = true;
                for ce in errs {
                    match ce {
                        CompilerError::MissingConstant(p, n, _) => {
                            named_missing.insert(format!("{p}::{n}"));
                        }
                        CompilerError::InvalidLiteralType(..) => named_mistyped += 1,
                        _ => {}
                    }
                }
            }
            // rendering the error must work as well
            if let Err(p) = catch(|| e.prettify(&case.with_consts)) {
                ctx.violation(&format!("prettify of a constants error panicked: {p}"), fault.clone());
            }
            if !is_compiler_error {
                st.counts.inc("fault injection: other error kind");
                ctx.violation(&format!("missing / mistyped constants are reported as a {} error", gl::error_kind(&e)), fault);
                return;
            }
            let want_missing: BTreeSet<String> = skip.iter().map(|i| format!("{}::{}", case.exts[*i].party, case.exts[*i].name)).collect();
            match mode {
                0 | 1 => {
                    st.counts.inc("fault injection: missing constants named");
                    if named_missing != want_missing {
                        ctx.violation(&format!("error names missing constants {named_missing:?}, injected {want_missing:?}"), fault);
                    }
                }
                2 => {
                    st.counts.inc("fault injection: mistyped constants named");
                    if named_mistyped != mistype.len() || !named_missing.is_empty() {
                        ctx.violation(&format!("error names {named_mistyped} mistyped constants (and missing {named_missing:?}), injected {} mistyped", mistype.len()), fault);
                    }
                }
                _ => {
                    // mixed: the error names every missing and every mistyped constant
                    st.counts.inc("fault injection: mixed, missing and mistyped constants named");
                    if named_missing != want_missing || named_mistyped != mistype.len() {
                        ctx.violation(
                            &format!("error names missing constants {named_missing:?} and {named_mistyped} mistyped ones; injected: missing {want_missing:?}, {} mistyped", mistype.len()),
                            fault,
                        );
                    }
                }
            }
        }
    }
}

pub fn run(ctx: &Ctx) -> i32 {
    let nw: usize = std::env::var("VERIF_WORKERS").ok().and_then(|s| s.parse().ok()).unwrap_or(WORKERS);
    let results = par(nw, |w| {
        let mut rng = Rng::derive(ctx.seed, 0x1200 + w as u64);
        let mut st = St::default();
        let mut n = 0u64;
        while !ctx.out_of_time() {
            for _ in 0..10 {
                one_case(ctx, &mut rng, &mut st);
                n += 1;
            }
        }
        (n, st)
    });
    let mut n = 0;
    let mut t = St::default();
    for (k, s) in results {
        n += k;
        t.counts.merge(&s.counts);
        t.uses.merge(&s.uses);
        t.distinct.extend(s.distinct);
        t.lanes += s.lanes;
        if t.samples.len() < 3 {
            t.samples.extend(s.samples.into_iter().take(1));
        }
    }
    let mut cov = Map::new();
    cov.insert("evaluations".into(), json!(n));
    cov.insert("distinct_nontrivial".into(), json!(t.distinct.len()));
    cov.insert("rule".into(), json!("a case is a generated program with 1-5 const declarations (external values, references to earlier consts, nested min/max/+/-) and a random assignment (distinct by source hash); compile_with_constants is compared with compiling the program in which every constant is replaced by the value the harness computes in wrapping arithmetic of the constant's type (party sizes, output size, flag/reason/value on 256 random inputs); then one fault (missing entry / missing party / mistyped literal / mixed) is injected and the error is inspected"));
    cov.insert("outcomes".into(), t.counts.to_json());
    cov.insert("features_used".into(), t.uses.to_json());
    cov.insert("input_lanes_compared".into(), json!(t.lanes));
    cov.insert("exhaustive".into(), json!(false));
    cov.insert("samples".into(), json!(t.samples));
    ctx.finish(cov, vec!["usize constants are evaluated in 32-bit wrapping arithmetic (usize is 32 bits wide in circuits)".into()], 200)
}
