//! Program-level reference-model monitors: C01 (values), C02 (panics), C14 (mutation / aliasing).

use crate::model::exec::{self, CompileResult, ExecStats, Verdict};
use crate::model::gen::{self, GenCfg, Profile};
use crate::model::print::Layout;
use crate::rng::Rng;
use crate::util::{par, Counts, Ctx, Tier, WORKERS};
use serde_json::{json, Map, Value};
use std::collections::{BTreeMap, HashSet};

#[derive(Clone, Copy, PartialEq, Eq, Debug)]
pub enum Kind {
    C01,
    C02,
    C14,
}

impl Kind {
    fn profile(self) -> Profile {
        match self {
            Kind::C01 => Profile::Mixed,
            Kind::C02 => Profile::PanicHeavy,
            Kind::C14 => Profile::MutationHeavy,
        }
    }
    /// which disagreement kinds are violations of this property
    fn counts(self, v: &Verdict) -> bool {
        match self {
            Kind::C01 | Kind::C14 => matches!(v, Verdict::WrongValue | Verdict::SpuriousPanic),
            Kind::C02 => matches!(v, Verdict::MissedPanic | Verdict::WrongReason | Verdict::WrongLocation | Verdict::SpuriousPanic),
        }
    }
}

#[derive(Default)]
struct Agg {
    generated: u64,
    compiled: u64,
    rejected: u64,
    crashed: u64,
    too_big: u64,
    nontrivial: u64,
    st: ExecStats,
    constructs: Counts,
    other_property_mismatches: Counts,
    distinct: HashSet<u64>,
    samples: Vec<Value>,
    rejected_samples: Vec<Value>,
    gates: u64,
    join_counts: Counts,
    join_distinct: HashSet<u64>,
    join_samples: Vec<Value>,
}

pub fn cfg_for(kind: Kind, tier: Tier, rng: &mut Rng) -> GenCfg {
    let mut cfg = GenCfg::new(kind.profile());
    match tier {
        Tier::Quick => {
            cfg.max_depth = 2 + rng.below(3) as u32;
            cfg.max_stmts = 3 + rng.usize_below(6);
            cfg.max_nodes = 60 + rng.usize_below(200);
        }
        Tier::Thorough => {
            cfg.max_depth = 2 + rng.below(4) as u32;
            cfg.max_stmts = 3 + rng.usize_below(10);
            cfg.max_nodes = 60 + rng.usize_below(400);
            cfg.max_array = 3 + rng.usize_below(5);
        }
    }
    cfg.max_fns = rng.usize_below(4);
    cfg
}

/// Replay the committed program witnesses of known findings: prints KNOWN-FINDING (through the
/// context) for every witness that still misbehaves, nothing for one that behaves correctly now.
pub fn replay_program_witnesses(ctx: &Ctx) {
    for e in ctx.known.of_kind("program-witness") {
        let (Some(id), Some(prg), Some(args), Some(expected)) = (e["id"].as_str(), e["key"]["program"].as_str(), e["key"]["args"].as_array(), e["key"]["expected"].as_str()) else {
            ctx.inconclusive("malformed program-witness entry in known_findings.json");
            continue;
        };
        let observed = crate::util::catch(|| -> Result<String, String> {
            let p = garble_lang::compile(prg).map_err(|e| format!("rejected: {}", e.prettify(prg)))?;
            let mut inputs = vec![];
            for (i, a) in args.iter().enumerate() {
                let a = a.as_str().unwrap_or("");
                inputs.push(p.parse_arg(i, a).map_err(|e| format!("bad argument {a}: {e:?}"))?.as_bits());
            }
            let out = p.circuit.eval(&inputs);
            match p.parse_output(&out) {
                Ok(l) => Ok(l.to_string()),
                Err(e) => Ok(format!("{e:?}")),
            }
        });
        match observed {
            Ok(Ok(o)) if o == expected => {} // behaves correctly now: silent
            Ok(Ok(_)) | Ok(Err(_)) | Err(_) => ctx.known_finding(id),
        }
    }
}

pub fn run(ctx: &Ctx, kind: Kind) -> i32 {
    replay_program_witnesses(ctx);
    let results = par(WORKERS, |w| {
        let mut agg = Agg::default();
        let mut rng = Rng::derive(ctx.seed, (kind as u64) * 0x10000 + w as u64);
        let mut case_no = 0u64;
        while !ctx.out_of_time() {
            case_no += 1;
            let case_seed = rng.next_u64();
            let mut crng = Rng::new(case_seed);
            // C01: one case in sixteen is a program that returns `join(a, b)`, judged by the oracle
            // of the join built-in (C13) on sorted inputs - the value the source program denotes
            if kind == Kind::C01 && case_no % 16 == 7 {
                super::c13::join_builtin_round(ctx, &mut crng, &mut agg.join_counts, &mut agg.join_distinct, &mut agg.join_samples, case_no, 6);
                continue;
            }
            // C02 needs line-exact locations: always token-per-line; the others alternate
            let layout = if kind == Kind::C02 || case_no % 2 == 0 { Layout::TokenPerLine } else { Layout::Compact };
            let cfg = cfg_for(kind, ctx.tier, &mut crng);
            // one program in eight (C01, C14) is a for-join program: accumulators, shadowing and
            // `mut` parameters around a join loop, run on sorted key sets
            let join_sizes = if kind != Kind::C02 && case_no % 8 == 3 { Some((crng.usize_below(5), crng.usize_below(5))) } else { None };
            let (prog, pr, mut used) = match join_sizes {
                Some((n, m)) => {
                    let style = crng.next_u64();
                    let mut jcfg = cfg;
                    jcfg.max_cost = 1500;
                    let prog = crate::model::gen::Gen::new(&mut crng, jcfg).gen_join_program(n, m);
                    let pr = exec::print(&prog, style, layout);
                    (prog, pr, std::collections::BTreeSet::new())
                }
                None => exec::generate(&mut crng, cfg, layout),
            };
            if join_sizes.is_some() {
                used.insert("for-join");
                used.insert("for-join-program");
                used.insert("accumulators");
            }
            agg.generated += 1;
            let compiled = match exec::compile_all(&pr.src) {
                CompileResult::Ok(c) => c,
                CompileResult::Rejected(k, m) => {
                    agg.rejected += 1;
                    if agg.rejected_samples.len() < 3 {
                        agg.rejected_samples.push(json!({"kind": k, "message": m.chars().take(600).collect::<String>(), "program": pr.src, "case_seed": case_seed}));
                    }
                    continue;
                }
                CompileResult::Crashed(m) => {
                    agg.crashed += 1;
                    if agg.rejected_samples.len() < 3 {
                        agg.rejected_samples.push(json!({"kind": "crash", "message": m, "program": pr.src, "case_seed": case_seed}));
                    }
                    continue;
                }
                CompileResult::TooBig(_) => {
                    agg.too_big += 1;
                    continue;
                }
            };
            agg.compiled += 1;
            agg.gates += crate::gl::ssa(&compiled.on).gates.len() as u64;
            for u in &used {
                agg.constructs.inc(u);
            }
            let n_args = ctx.tier.pick(24usize, 48usize);
            let arg_tuples: Vec<_> = match join_sizes {
                None => (0..n_args).map(|_| gen::gen_args(&mut crng, &prog)).collect(),
                Some((n, m)) => {
                    use super::c13::{elem_with_key, key_universe_max, sorted_keys};
                    use crate::model::ty::{Ty, Val};
                    let (Ty::Array(ea, _), Ty::Array(eb, _)) = (&prog.main().params[0].ty, &prog.main().params[1].ty) else { unreachable!() };
                    let Ty::Tuple(fa) = &**ea else { unreachable!() };
                    let kt = fa[0].clone();
                    (0..n_args)
                        .map(|_| {
                            let universe = ((n + m) as u64 + 1 + crng.below(3)).min(key_universe_max(&kt)).max(n.max(m) as u64 + 1);
                            let ka = sorted_keys(&mut crng, n, universe, true);
                            let kb = sorted_keys(&mut crng, m, universe, true);
                            let mut t = vec![
                                Val::Array(ka.iter().map(|k| elem_with_key(&mut crng, ea, *k, &prog.defs)).collect()),
                                Val::Array(kb.iter().map(|k| elem_with_key(&mut crng, eb, *k, &prog.defs)).collect()),
                            ];
                            if let Some(p) = prog.main().params.get(2) {
                                t.push(crate::model::ty::gen_val(&mut crng, &p.ty, &prog.defs));
                            }
                            t
                        })
                        .collect()
                }
            };
            let before_ok = agg.st.expected_ok;
            let before_panic = agg.st.expected_panic;
            match exec::run_batch(&prog, &pr, &compiled, &arg_tuples, &mut agg.st) {
                Err(e) => {
                    ctx.violation(
                        &format!("generated program: {e}"),
                        json!({"kind": "program-structure", "case_seed": case_seed, "for_join": join_sizes.is_some(), "layout": format!("{layout:?}"), "program": pr.src, "problem": e}),
                    );
                }
                Ok(mm) => {
                    let mine: Vec<&exec::Mismatch> = mm.iter().filter(|m| kind.counts(&m.verdict)).collect();
                    for m in mm.iter().filter(|m| !kind.counts(&m.verdict)) {
                        agg.other_property_mismatches.inc(&format!("{:?}", m.verdict));
                    }
                    if !mine.is_empty() {
                        let first = mine[0];
                        ctx.violation(
                            &format!("{:?} in {} (and {} more disagreeing executions of this program)", first.verdict, first.config, mine.len() - 1),
                            json!({
                                "kind": "program-execution", "case_seed": case_seed, "for_join": join_sizes.is_some(), "layout": format!("{layout:?}"), "program": pr.src,
                                "mismatches": mine.iter().take(4).map(|m| json!({"config": m.config, "verdict": format!("{:?}", m.verdict), "args": m.args_text, "expected": m.expected, "observed": m.observed})).collect::<Vec<_>>(),
                            }),
                        );
                    }
                }
            }
            let ok_here = agg.st.expected_ok - before_ok;
            let panic_here = agg.st.expected_panic - before_panic;
            let relevant = match kind {
                Kind::C02 => panic_here > 0 && ok_here + panic_here > 1,
                _ => ok_here > 0,
            };
            if used.len() >= 3 && relevant {
                if agg.distinct.insert(crate::util::fnv(pr.src.as_bytes())) {
                    agg.nontrivial += 1;
                }
            }
            if agg.samples.len() < 1 && pr.toks.len() < 160 && relevant && case_no > 5 {
                let compact = crate::model::print::render(&pr.toks, Layout::Compact);
                let (exp, _, _) = exec::expected(&prog, &arg_tuples[0]);
                agg.samples.push(json!({
                    "program": compact,
                    "args": arg_tuples[0].iter().zip(&prog.main().params).map(|(a, p)| crate::model::ty::val_text(a, &p.ty, &prog.defs)).collect::<Vec<_>>(),
                    "reference_result": exec::describe_expect(&exp, &prog.main().ret, &prog.defs),
                    "constructs": used.iter().collect::<Vec<_>>(),
                }));
            }
        }
        agg
    });
    let mut t = Agg::default();
    for a in results {
        t.generated += a.generated;
        t.compiled += a.compiled;
        t.rejected += a.rejected;
        t.crashed += a.crashed;
        t.too_big += a.too_big;
        t.nontrivial += a.nontrivial;
        t.gates += a.gates;
        t.st.executions += a.st.executions;
        t.st.judged += a.st.judged;
        t.st.expected_ok += a.st.expected_ok;
        t.st.expected_panic += a.st.expected_panic;
        t.st.skipped.merge(&a.st.skipped);
        t.st.panic_reasons.merge(&a.st.panic_reasons);
        t.st.multi_alt += a.st.multi_alt;
        t.st.sites_evaluated += a.st.sites_evaluated;
        t.st.branches_skipped += a.st.branches_skipped;
        t.st.cross_checked += a.st.cross_checked;
        t.constructs.merge(&a.constructs);
        t.join_counts.merge(&a.join_counts);
        t.other_property_mismatches.merge(&a.other_property_mismatches);
        t.distinct.extend(a.distinct);
        if t.samples.len() < 3 {
            t.samples.extend(a.samples);
        }
        if t.rejected_samples.len() < 4 {
            t.rejected_samples.extend(a.rejected_samples);
        }
    }
    let mut cov = Map::new();
    cov.insert("evaluations".into(), json!(t.st.judged * 4));
    cov.insert("distinct_nontrivial".into(), json!(t.distinct.len()));
    cov.insert(
        "rule".into(),
        json!(match kind {
            Kind::C02 => "a case is a generated well-typed program (distinct by source hash); non-trivial = uses >= 3 construct kinds and at least one of its judged executions panics in the reference semantics; evaluations = judged executions x 4 configurations (SSA/register x dedup on/off)",
            _ => "a case is a generated well-typed program (distinct by source hash); non-trivial = uses >= 3 construct kinds and has at least one judged execution that completes without panic in the reference semantics; evaluations = judged executions x 4 configurations (SSA/register x dedup on/off)",
        }),
    );
    cov.insert("programs_generated".into(), json!(t.generated));
    cov.insert("programs_compiled".into(), json!(t.compiled));
    cov.insert("programs_rejected_by_garble".into(), json!(t.rejected));
    cov.insert("programs_crashing_garble".into(), json!(t.crashed));
    cov.insert("programs_skipped_too_big".into(), json!(t.too_big));
    cov.insert("average_gates".into(), json!(if t.compiled > 0 { t.gates / t.compiled } else { 0 }));
    cov.insert("executions".into(), json!(t.st.executions));
    cov.insert("executions_judged".into(), json!(t.st.judged));
    cov.insert("executions_expected_ok".into(), json!(t.st.expected_ok));
    cov.insert("executions_expected_panic".into(), json!(t.st.expected_panic));
    cov.insert("executions_with_two_acceptable_panics".into(), json!(t.st.multi_alt));
    cov.insert("expected_panic_reasons".into(), t.st.panic_reasons.to_json());
    cov.insert("executions_skipped".into(), t.st.skipped.to_json());
    cov.insert("potentially_failing_sites_evaluated".into(), json!(t.st.sites_evaluated));
    cov.insert("branches_arms_operands_not_taken".into(), json!(t.st.branches_skipped));
    cov.insert("cross_checked_with_garble_api".into(), json!(t.st.cross_checked));
    cov.insert("constructs_in_compiled_programs".into(), t.constructs.to_json());
    if kind == Kind::C01 {
        cov.insert("join_builtin_programs".into(), t.join_counts.to_json());
    }
    cov.insert("disagreements_belonging_to_other_properties".into(), t.other_property_mismatches.to_json());
    cov.insert("rejected_or_crashing_samples".into(), json!(t.rejected_samples));
    cov.insert("exhaustive".into(), json!(false));
    cov.insert("samples".into(), json!(t.samples));
    if t.generated > 0 && (t.rejected + t.crashed) * 20 > t.generated {
        ctx.inconclusive(&format!("{} of {} generated programs were rejected by garble or crashed it (reported by C05); too many for this run to be meaningful", t.rejected + t.crashed, t.generated));
    }
    let _ = BTreeMap::<u8, u8>::new();
    ctx.finish(
        cov,
        vec![
            "reference interpreter written from the language guide (Appendix A of DESIGN.md) with the declared leniencies".into(),
            "harness codec and evaluators, cross-checked against parse_arg / eval / parse_output on one execution per program".into(),
            "panic locations are compared by start and end line in the token-per-line layout only".into(),
        ],
        100,
    )
}

/// Re-run one recorded case (regenerated from its case seed) and print what is observed.
pub fn replay(kind: Kind, path: &str) -> i32 {
    let Ok(text) = std::fs::read_to_string(path) else {
        eprintln!("cannot read {path}");
        return 2;
    };
    let Ok(v) = serde_json::from_str::<Value>(&text) else {
        eprintln!("replay file is not JSON");
        return 2;
    };
    let tier = if v["tier"].as_str() == Some("thorough") { Tier::Thorough } else { Tier::Quick };
    if v["case"]["kind"].as_str() == Some("join") {
        eprintln!("a `join` built-in witness: the replay file holds the program and the two sorted argument arrays (fields program, a, b, problem)");
        return 2;
    }
    let Some(case_seed) = v["case"]["case_seed"].as_u64() else {
        eprintln!("replay file has no case_seed");
        return 2;
    };
    let layout = if v["case"]["layout"].as_str() == Some("Compact") { Layout::Compact } else { Layout::TokenPerLine };
    let mut crng = Rng::new(case_seed);
    let cfg = cfg_for(kind, tier, &mut crng);
    let (prog, pr, _used) = if v["case"]["for_join"].as_bool() == Some(true) {
        let (n, m) = (crng.usize_below(5), crng.usize_below(5));
        let style = crng.next_u64();
        let mut jcfg = cfg;
        jcfg.max_cost = 1500;
        let prog = crate::model::gen::Gen::new(&mut crng, jcfg).gen_join_program(n, m);
        let pr = exec::print(&prog, style, layout);
        (prog, pr, std::collections::BTreeSet::new())
    } else {
        exec::generate(&mut crng, cfg, layout)
    };
    if let Some(p) = v["case"]["program"].as_str() {
        if p != pr.src {
            println!("note: regenerated program text differs from the recorded one (generator changed since the record was written)");
        }
    }
    if std::env::var("VERIF_SHOW").is_ok() {
        // numbered source lines (0-based, as in MetaInfo)
        for (i, l) in pr.src.lines().enumerate() {
            println!("{:5} {}", i, l);
        }
    }
    let compiled = match exec::compile_all(&pr.src) {
        CompileResult::Ok(c) => c,
        CompileResult::Rejected(k, m) => {
            println!("program rejected ({k}): {m}");
            return 1;
        }
        CompileResult::Crashed(m) => {
            println!("compiler crashed: {m}");
            return 1;
        }
        CompileResult::TooBig(n) => {
            println!("circuit too big ({n} gates)");
            return 2;
        }
    };
    let n_args = tier.pick(24usize, 48usize);
    let arg_tuples: Vec<_> = (0..n_args).map(|_| gen::gen_args(&mut crng, &prog)).collect();
    let mut st = ExecStats::default();
    match exec::run_batch(&prog, &pr, &compiled, &arg_tuples, &mut st) {
        Err(e) => {
            println!("VIOLATION property={kind:?} replay={path}   # {e}");
            1
        }
        Ok(mm) => {
            let mine: Vec<&exec::Mismatch> = mm.iter().filter(|m| kind.counts(&m.verdict)).collect();
            for m in mine.iter().take(8) {
                println!("{} {:?} args={:?}\n   expected {}\n   observed {}", m.config, m.verdict, m.args_text, m.expected, m.observed);
            }
            if mine.is_empty() {
                println!("RESULT property={kind:?} replay: held on {} judged executions x 4 configurations", st.judged);
                0
            } else {
                println!("VIOLATION property={kind:?} replay={path}   # {} disagreeing executions", mine.len());
                1
            }
        }
    }
}
