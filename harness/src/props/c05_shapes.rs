//! C05: the I/O shape a function must have according to the *declared* types of the program text
//! that garble itself type-checked, computed by the harness' own size function over garble's type
//! representation (documented layout: bool 1 bit, uN / iN N bits, usize 32 bits, arrays n x element,
//! tuples and structs the sum of their fields, enums a tag of ceil(log2(#variants)) bits followed by
//! the largest payload). Lets the shape oracle of C05 judge programs the harness did not generate
//! from its own model: the corpus, the slot grid of C07, mutants.

use garble_lang::ast::{ConstExpr, ConstExprEnum, Type, Variant};
use garble_lang::token::{SignedNumType, UnsignedNumType};
use garble_lang::TypedProgram;

/// Size in bits of a type without constants (None: const-sized array, unspecified number type,
/// unknown definition, function type).
pub fn type_bits(ty: &Type, prog: &TypedProgram, depth: u32) -> Option<usize> {
    if depth > 64 {
        return None;
    }
    Some(match ty {
        Type::Bool => 1,
        Type::Unsigned(t) => match t {
            UnsignedNumType::U8 => 8,
            UnsignedNumType::U16 => 16,
            UnsignedNumType::U32 | UnsignedNumType::Usize => 32,
            UnsignedNumType::U64 => 64,
            UnsignedNumType::Unspecified => return None,
        },
        Type::Signed(t) => match t {
            SignedNumType::I8 => 8,
            SignedNumType::I16 => 16,
            SignedNumType::I32 => 32,
            SignedNumType::I64 => 64,
            SignedNumType::Unspecified => return None,
        },
        Type::Array(elem, n) => type_bits(elem, prog, depth + 1)?.checked_mul(*n)?,
        Type::ArrayConst(elem, name) => type_bits(elem, prog, depth + 1)?.checked_mul(const_usize(&ConstExprEnum::ConstExprIdent(name.clone()), prog, 0)?)?,
        Type::ArrayConstExpr(elem, ConstExpr(size, _)) => type_bits(elem, prog, depth + 1)?.checked_mul(const_usize(size, prog, 0)?)?,
        Type::Tuple(fields) => {
            let mut sum = 0usize;
            for f in fields {
                sum = sum.checked_add(type_bits(f, prog, depth + 1)?)?;
            }
            sum
        }
        Type::Struct(name) => {
            let def = prog.struct_defs.get(name)?;
            let mut sum = 0usize;
            for (_, f) in def.fields.iter() {
                sum = sum.checked_add(type_bits(f, prog, depth + 1)?)?;
            }
            sum
        }
        Type::Enum(name) => {
            let def = prog.enum_defs.get(name)?;
            let mut tag = 0;
            while (1usize << tag) < def.variants.len() {
                tag += 1;
            }
            let mut max = 0usize;
            for v in def.variants.iter() {
                let mut sum = 0usize;
                if let Variant::Tuple(_, fields) = v {
                    for f in fields {
                        sum = sum.checked_add(type_bits(f, prog, depth + 1)?)?;
                    }
                }
                max = max.max(sum);
            }
            tag + max
        }
        _ => return None,
    })
}

/// Value of an array size expression over `usize` consts that the program defines itself by number
/// literals, other such consts, `+` and `-` (None: values of other parties, min / max, or an
/// intermediate result outside 0 ..= u32::MAX - wrapping sizes are C12's business).
fn const_usize(e: &ConstExprEnum, prog: &TypedProgram, depth: u32) -> Option<usize> {
    if depth > 32 {
        return None;
    }
    match e {
        ConstExprEnum::NumUnsigned(n, _) => usize::try_from(*n).ok().filter(|n| *n <= u32::MAX as usize),
        ConstExprEnum::ConstExprIdent(name) => {
            let def = prog.const_defs.get(name)?;
            if def.ty != Type::Unsigned(UnsignedNumType::Usize) {
                return None;
            }
            const_usize(&def.value.0, prog, depth + 1)
        }
        ConstExprEnum::Add(a, b) => const_usize(&a.0, prog, depth + 1)?.checked_add(const_usize(&b.0, prog, depth + 1)?).filter(|n| *n <= u32::MAX as usize),
        ConstExprEnum::Sub(a, b) => const_usize(&a.0, prog, depth + 1)?.checked_sub(const_usize(&b.0, prog, depth + 1)?),
        _ => None,
    }
}

/// (party sizes, return bits) of a function per its declared types: one party per parameter, or -
/// for a single array parameter - one party per element.
pub fn declared_shape(prog: &TypedProgram, fn_name: &str) -> Option<(Vec<usize>, usize)> {
    let f = prog.fn_defs.get(fn_name)?;
    let ret = type_bits(&f.ty, prog, 0)?;
    if f.params.len() == 1 {
        let n = match &f.params[0].ty {
            Type::Array(_, n) => Some(*n),
            Type::ArrayConst(_, name) => Some(const_usize(&ConstExprEnum::ConstExprIdent(name.clone()), prog, 0)?),
            Type::ArrayConstExpr(_, ConstExpr(size, _)) => Some(const_usize(size, prog, 0)?),
            _ => None,
        };
        if let (Some(n), Type::Array(elem, _) | Type::ArrayConst(elem, _) | Type::ArrayConstExpr(elem, _)) = (n, &f.params[0].ty) {
            return Some((vec![type_bits(elem, prog, 0)?; n], ret));
        }
    }
    let mut parties = vec![];
    for p in f.params.iter() {
        parties.push(type_bits(&p.ty, prog, 0)?);
    }
    Some((parties, ret))
}
