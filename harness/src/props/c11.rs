//! C11 — Bristol export/import preserves the function; malformed files are rejected.

use crate::bits::{self, Bristol};
use crate::circgen;
use crate::corpus;
use crate::gl::{self, CompileOutcome};
use crate::rng::Rng;
use crate::util::{catch, par, Counts, Ctx, WORKERS};
use garble_lang::circuit::{Circuit, Gate};
use garble_lang::verif_hooks::Builder;
use serde_json::{json, Map, Value};
use std::io::Write;
use std::path::{Path, PathBuf};

use super::c10::circuit_json;

fn work_dir() -> PathBuf {
    let d = crate::util::verif_dir().join(".work").join(format!("c11-{}", std::process::id()));
    let _ = std::fs::create_dir_all(&d);
    d
}

#[derive(Default)]
struct St {
    exported: u64,
    imported: u64,
    lanes: u64,
    dealiased: u64,
    refused_input_outputs: u64,
    counts: Counts,
}

/// Export `c`, check the text, import it back, compare functions. Returns the exported text.
fn roundtrip(c: &Circuit, path: &Path, rng: &mut Rng, st: &mut St) -> Result<Option<String>, String> {
    let n_in: usize = c.input_gates.iter().sum();
    let value_outs = &c.output_gates[gl::PANIC_BITS..];
    let has_input_output = value_outs.iter().any(|o| *o < n_in);
    let r = catch(|| c.format_as_bristol(path)).map_err(|p| format!("format_as_bristol panicked: {p}"))?;
    match r {
        Err(garble_lang::convert::ToBristolError::OutputWireIsInput) if has_input_output => {
            st.refused_input_outputs += 1;
            return Ok(None);
        }
        Err(e) => return Err(format!("export failed: {e:?}")),
        Ok(()) => {
            if has_input_output {
                return Err("export accepted a circuit whose output is an input wire".into());
            }
        }
    }
    st.exported += 1;
    let text = std::fs::read_to_string(path).map_err(|e| format!("harness: cannot read export: {e}"))?;
    let b = Bristol::parse(&text).map_err(|e| format!("exported text is not parseable Bristol: {e}"))?;
    b.check_well_formed().map_err(|e| format!("exported text is not well-formed Bristol: {e}"))?;
    if b.inputs != c.input_gates {
        return Err(format!("exported input sizes {:?} != {:?}", b.inputs, c.input_gates));
    }
    if b.outputs.iter().sum::<usize>() != value_outs.len() {
        return Err(format!("exported {} output bits, circuit has {}", b.outputs.iter().sum::<usize>(), value_outs.len()));
    }
    let mut seen = std::collections::HashSet::new();
    if value_outs.iter().any(|o| !seen.insert(*o)) {
        st.dealiased += 1;
    }
    // import
    let imp = catch(|| Circuit::bristol_to_garble(path)).map_err(|p| format!("importer panicked on an exported file: {p}"))?;
    let imp = imp.map_err(|e| format!("importer rejects an exported file: {e:?}"))?;
    st.imported += 1;
    // the top-level entry point gives the same circuit
    match catch(|| garble_lang::compile_bristol_to_circuit(path)) {
        Err(p) => return Err(format!("compile_bristol_to_circuit panicked on an exported file: {p}")),
        Ok(Err(e)) => return Err(format!("compile_bristol_to_circuit rejects an exported file that Circuit::bristol_to_garble imports: {}", format!("{e:?}").chars().take(200).collect::<String>())),
        Ok(Ok(top)) => {
            if top.input_gates != imp.input_gates || top.output_gates != imp.output_gates || top.gates.len() != imp.gates.len() {
                return Err("compile_bristol_to_circuit and Circuit::bristol_to_garble import different circuits".into());
            }
        }
    }
    match imp.validate() {
        Ok(()) => {}
        // a program returning () has no non-panic output bits: the imported circuit then has no
        // outputs at all, which is what the property asks for (same output bits), even though
        // validate() insists on at least one output
        Err(garble_lang::circuit::CircuitError::EmptyOutputs) if value_outs.is_empty() => {}
        Err(e) => return Err(format!("imported circuit fails validate(): {e:?}")),
    }
    if imp.input_gates != c.input_gates || imp.output_gates.len() != value_outs.len() {
        return Err("imported circuit has a different I/O shape".into());
    }
    let exhaustive = n_in <= 14;
    let batches = if exhaustive { bits::exhaustive_batches(n_in) } else { 4 };
    for bi in 0..batches {
        let inputs = if exhaustive { bits::exhaustive_batch(n_in, bi) } else { (0..n_in).map(|_| rng.next_u64()).collect() };
        let orig = bits::eval_ssa(c, &inputs).map_err(|e| format!("harness: {e}"))?;
        let want = &orig[gl::PANIC_BITS..];
        let from_text = b.eval(&inputs).map_err(|e| format!("exported text: {e}"))?;
        let from_import = bits::eval_ssa(&imp, &inputs).map_err(|e| format!("imported circuit: {e}"))?;
        st.lanes += 64;
        for k in 0..want.len() {
            if want[k] != from_text[k] {
                return Err(format!("output bit {k} of the exported text differs from the circuit"));
            }
            if want[k] != from_import[k] {
                return Err(format!("output bit {k} of the re-imported circuit differs from the circuit"));
            }
        }
    }
    Ok(Some(text))
}

/// Circuits built through the hook wrapper with chosen output shapes.
fn shaped_circuit(rng: &mut Rng) -> Circuit {
    let n_inputs = 1 + rng.usize_below(6);
    let parties = if rng.bool() || n_inputs < 2 { vec![n_inputs] } else { vec![1, n_inputs - 1] };
    let mut b = Builder::new(parties, rng.bool());
    let mut pool: Vec<usize> = (0..2 + n_inputs).collect();
    let mut gates: Vec<usize> = vec![];
    for _ in 0..(1 + rng.usize_below(25)) {
        let (x, y) = (*rng.pick(&pool), *rng.pick(&pool));
        let r = match rng.below(4) {
            0 => b.push_xor(x, y),
            1 => b.push_and(x, y),
            2 => b.push_not(x),
            _ => b.push_or(x, y),
        };
        pool.push(r);
        if r >= 2 + n_inputs {
            gates.push(r);
        }
    }
    let n_out = 1 + rng.usize_below(8);
    let mut outputs = vec![];
    for _ in 0..n_out {
        let o = match rng.below(10) {
            0 => 0,                                   // constant false
            1 => 1,                                   // constant true
            2 => *rng.pick(&pool),                    // anything (may be an input)
            3 if !outputs.is_empty() => *rng.pick(&outputs), // repeat
            _ if !gates.is_empty() => *rng.pick(&gates),
            _ => 1,
        };
        outputs.push(o);
    }
    b.build(outputs)
}

// ---------------------------------------------------------------------------------------------
// importer robustness: mutated files, run in an isolated worker process

fn mutate_text(rng: &mut Rng, text: &str) -> String {
    let mut lines: Vec<String> = text.lines().map(|l| l.to_string()).collect();
    if lines.is_empty() {
        return "1 1".into();
    }
    let wild = ["0", "1", "2", "18446744073709551615", "18446744073709551616", "9223372036854775808", "4294967296", "4294967295", "-1", "x", "1e3", "", "99999999999"];
    let n = 1 + rng.usize_below(3);
    for _ in 0..n {
        let li = if rng.chance(1, 2) { rng.usize_below(lines.len().min(3)) } else { rng.usize_below(lines.len()) };
        match rng.below(11) {
            9 => {
                // a long line of non-ASCII text (comment, garbage) after or instead of a line: every
                // length around typical buffer / truncation sizes, multi-byte characters at every offset
                let ch = *rng.pick(&["€", "ä", "🙂", "é", "ß", "日"]);
                let pad = " ".repeat(rng.usize_below(4));
                let n = *rng.pick(&[40usize, 86, 100, 128, 129, 200, 300, 1025]);
                let garbage = format!("{pad}{}", ch.repeat(n));
                if rng.bool() {
                    lines.insert((li + 1).min(lines.len()), garbage);
                } else {
                    lines[li] = garbage;
                }
            }
            10 => {
                // a gate line padded with blanks to a length around 256 / 512 / 1024 bytes, followed by a
                // comment with multi-byte characters
                let target = *rng.pick(&[250usize, 253, 254, 255, 256, 257, 510, 511, 512, 1022, 1023, 1024]) + rng.usize_below(4);
                let mut l = lines[li].clone();
                while l.len() < target {
                    l.push(' ');
                }
                let comment: &str = *rng.pick(&["-- geändert für den Übertrag", "# données modifiées", "// 日本語のコメント", "€€€€€€€€"]);
                l.push_str(comment);
                lines[li] = l;
            }
            0 => {
                lines.remove(li);
                if lines.is_empty() {
                    break;
                }
            }
            1 => {
                let l = lines[li].clone();
                lines.insert(li, l);
            }
            2 if lines.len() > 1 => {
                let lj = rng.usize_below(lines.len());
                lines.swap(li, lj);
            }
            3 | 4 | 5 => {
                // replace one token
                let mut toks: Vec<String> = lines[li].split_whitespace().map(|t| t.to_string()).collect();
                if toks.is_empty() {
                    lines[li] = rng.pick(&wild).to_string();
                } else {
                    let ti = rng.usize_below(toks.len());
                    toks[ti] = match rng.below(4) {
                        0 => rng.pick(&wild).to_string(),
                        1 => toks[ti].parse::<u64>().map(|v| v.wrapping_add(1).to_string()).unwrap_or_else(|_| "XOR".into()),
                        2 => toks[ti].parse::<u64>().map(|v| v.saturating_sub(1).to_string()).unwrap_or_else(|_| "INV".into()),
                        _ => rng.pick(&["XOR", "AND", "INV", "EQ", "EQW", "MAND", "xor", "NOT"]).to_string(),
                    };
                    lines[li] = toks.join(" ");
                }
            }
            6 => {
                // drop / add a token
                let mut toks: Vec<String> = lines[li].split_whitespace().map(|t| t.to_string()).collect();
                if !toks.is_empty() && rng.bool() {
                    let ti = rng.usize_below(toks.len());
                    toks.remove(ti);
                } else {
                    let ti = rng.usize_below(toks.len() + 1);
                    toks.insert(ti, rng.pick(&wild).to_string());
                }
                lines[li] = toks.join(" ");
            }
            7 => {
                lines.truncate(li + 1);
                let mut keep = rng.usize_below(lines[li].len() + 1);
                while !lines[li].is_char_boundary(keep) {
                    keep -= 1;
                }
                lines[li].truncate(keep);
            }
            _ => {
                lines.insert(li, format!("{} {} {} {} {}", rng.below(4), rng.below(3), rng.below(40), rng.below(40), rng.pick(&["XOR", "AND", "INV"])));
            }
        }
    }
    lines.join("\n")
}

pub struct ProcOut {
    pub stdout: String,
    pub stderr: String,
    pub success: bool,
    pub timed_out: bool,
    pub status: String,
}

/// Run a shell command with stdout/stderr redirected to files in `dir`, kill it after `secs`.
pub fn run_with_timeout(cmd: &str, dir: &Path, secs: u64) -> Option<ProcOut> {
    let so = dir.join("worker.stdout");
    let se = dir.join("worker.stderr");
    let full = format!("{{ {cmd} ; }} > '{}' 2> '{}'", so.display(), se.display());
    let mut child = std::process::Command::new("sh").args(["-c", &full]).spawn().ok()?;
    let t0 = std::time::Instant::now();
    let mut timed_out = false;
    let status = loop {
        match child.try_wait() {
            Ok(Some(st)) => break Some(st),
            Ok(None) => {
                if t0.elapsed().as_secs() >= secs {
                    timed_out = true;
                    let _ = child.kill();
                    // `exec` makes the worker the direct child, so kill reaches it
                    break child.wait().ok();
                }
                std::thread::sleep(std::time::Duration::from_millis(20));
            }
            Err(_) => break None,
        }
    };
    let stdout = std::fs::read_to_string(&so).unwrap_or_default();
    let stderr = std::fs::read_to_string(&se).unwrap_or_default();
    Some(ProcOut {
        stdout,
        stderr,
        success: status.map(|s| s.success()).unwrap_or(false) && !timed_out,
        timed_out,
        status: format!("{status:?}"),
    })
}

/// Worker: `gverif worker bristol-import <dir> <from> <to>` imports files <dir>/m<i>.txt and
/// prints one line per file ("<i> ok|err|panic ..."). An abort kills the worker; the parent sees
/// which file was being processed from the last "begin" line.
pub fn worker(args: &[String]) -> i32 {
    let (Some(dir), Some(from), Some(to)) = (args.first(), args.get(1), args.get(2)) else { return 2 };
    let (from, to): (usize, usize) = (from.parse().unwrap_or(0), to.parse().unwrap_or(0));
    let out = std::io::stdout();
    for i in from..to {
        let path = Path::new(dir).join(format!("m{i}.txt"));
        {
            let mut o = out.lock();
            let _ = writeln!(o, "{i} begin");
            let _ = o.flush();
        }
        let r = catch(|| Circuit::bristol_to_garble(&path));
        let line = match r {
            Ok(Ok(c)) => {
                // an accepted file must give a circuit that validates and evaluates
                let n_in: usize = c.input_gates.iter().sum();
                let v = catch(|| c.validate());
                match v {
                    Ok(Ok(())) if n_in <= 4096 => {
                        let inputs: Vec<Vec<bool>> = c.input_gates.iter().map(|n| vec![false; *n]).collect();
                        match catch(|| c.eval(&inputs)) {
                            Ok(_) => format!("{i} ok valid"),
                            Err(p) => format!("{i} panic eval-of-accepted: {p}"),
                        }
                    }
                    Ok(Ok(())) => format!("{i} ok valid-large"),
                    Ok(Err(e)) => format!("{i} ok invalid:{e:?}"),
                    Err(p) => format!("{i} panic validate: {p}"),
                }
            }
            Ok(Err(e)) => format!("{i} err {}", format!("{e:?}").split('(').next().unwrap_or("")),
            Err(p) => format!("{i} panic import: {p}"),
        };
        let mut o = out.lock();
        let _ = writeln!(o, "{line}");
        let _ = o.flush();
    }
    0
}

pub fn run(ctx: &Ctx) -> i32 {
    let dir = work_dir();
    let mut programs: Vec<(String, String)> = corpus::load();
    programs.extend(super::c04_op_programs().into_iter().enumerate().map(|(i, p)| (format!("op-program-{i}"), p)));
    // circuits with very many parties (a sole array parameter is one party per element): the second
    // header line of the export grows with the number of parties
    let many: Vec<(String, String)> = [
        ("bool", 2100usize, "a[0] ^ a[2099]"),
        ("u8", 2100, "a[0] ^ a[2099]"),
        ("u16", 1400, "a[1] & a[1399]"),
        ("u64", 1500, "a[3] | a[1499]"),
        ("u8", 5000, "a[17] + a[4999]"),
    ]
    .iter()
    .map(|(t, n, body)| (format!("crafted-{n}-parties-of-{t}"), format!("pub fn main(a: [{t}; {n}]) -> {t} {{ {body} }}\n")))
    .collect();
    programs.splice(0..0, many);
    let export_budget = 0.5;
    let results = par(WORKERS, |w| {
        let mut rng = Rng::derive(ctx.seed, 0x1100 + w as u64);
        let mut st = St::default();
        let mut distinct = std::collections::HashSet::new();
        let mut samples: Vec<Value> = vec![];
        let mut texts: Vec<String> = vec![];
        let path = dir.join(format!("export-{w}.txt"));
        for (i, (origin, src)) in programs.iter().enumerate() {
            if i % WORKERS != w || ctx.past(export_budget) {
                continue;
            }
            if let CompileOutcome::Ok(p) = gl::compile(src, i % 2 == 0, false) {
                let c = gl::ssa(&p);
                if c.gates.len() > 60_000 {
                    continue;
                }
                st.counts.inc("compiled_circuits");
                distinct.insert(crate::util::fnv(src.as_bytes()));
                match roundtrip(c, &path, &mut rng, &mut st) {
                    Err(e) => ctx.violation(&format!("{origin}: {e}"), json!({"kind": "program", "program": src, "problem": e})),
                    Ok(Some(t)) => {
                        if t.len() < 3000 {
                            texts.push(t);
                        }
                    }
                    Ok(None) => {}
                }
            }
        }
        while !ctx.past(export_budget) {
            let c = if rng.chance(2, 3) {
                shaped_circuit(&mut rng)
            } else {
                // random well-formed gate list wrapped with a (dummy) panic prefix of constant wires
                let mut c = circgen::well_formed_ssa(&mut rng, 40);
                let n_in: usize = c.input_gates.iter().sum();
                // make wire n_in a constant false gate to serve as panic bits
                c.gates.insert(0, Gate::Xor(0, 0));
                for g in c.gates.iter_mut().skip(1) {
                    let sh = |x: &mut usize| {
                        if *x >= n_in {
                            *x += 1
                        }
                    };
                    match g {
                        Gate::Xor(a, b) | Gate::And(a, b) => {
                            sh(a);
                            sh(b)
                        }
                        Gate::Not(a) => sh(a),
                    }
                }
                let mut outs = vec![n_in; gl::PANIC_BITS];
                outs.extend(c.output_gates.iter().map(|o| if *o >= n_in { *o + 1 } else { *o }));
                c.output_gates = outs;
                c
            };
            st.counts.inc("shaped_or_random_circuits");
            distinct.insert(crate::util::fnv(format!("{c:?}").as_bytes()));
            match roundtrip(&c, &path, &mut rng, &mut st) {
                Err(e) => ctx.violation(&format!("built circuit: {e}"), json!({"kind": "ssa", "circuit": circuit_json(&c), "problem": e})),
                Ok(Some(t)) => {
                    if samples.len() < 1 && t.lines().count() < 14 && t.lines().count() > 6 {
                        samples.push(json!({"circuit": circuit_json(&c), "exported_bristol": t}));
                    }
                    if texts.len() < 400 && t.len() < 3000 {
                        texts.push(t);
                    }
                }
                Ok(None) => {}
            }
        }
        let _ = std::fs::remove_file(&path);
        (st, distinct, samples, texts)
    });
    let mut st = St::default();
    let mut distinct = std::collections::HashSet::new();
    let mut samples = vec![];
    let mut texts: Vec<String> = vec![];
    for (s, d, sm, t) in results {
        st.exported += s.exported;
        st.imported += s.imported;
        st.lanes += s.lanes;
        st.dealiased += s.dealiased;
        st.refused_input_outputs += s.refused_input_outputs;
        st.counts.merge(&s.counts);
        distinct.extend(d);
        samples.extend(sm.into_iter().take(1));
        texts.extend(t);
    }
    samples.truncate(3);
    // the shipped Bristol examples are valid bases too
    if let Ok(rd) = std::fs::read_dir(corpus::repo().join("bristol_examples")) {
        for e in rd.flatten() {
            if let Ok(t) = std::fs::read_to_string(e.path()) {
                if t.len() < 20_000 {
                    texts.push(t);
                }
            }
        }
    }

    // importer robustness in isolated workers
    let exe = std::env::current_exe().unwrap();
    let mut import_counts = Counts::default();
    let mut mutants_total = 0u64;
    if texts.is_empty() {
        ctx.inconclusive("no exported text available as mutation base");
    } else {
        let results = par(WORKERS, |w| {
            let mut rng = Rng::derive(ctx.seed, 0x1180 + w as u64);
            let mut counts = Counts::default();
            let mut total = 0u64;
            let wdir = dir.join(format!("mut-{w}"));
            let _ = std::fs::create_dir_all(&wdir);
            let mut sample: Option<Value> = None;
            while !ctx.out_of_time() {
                let batch = 300usize;
                let mut files: Vec<String> = vec![];
                for i in 0..batch {
                    let t = match rng.below(12) {
                        0 => String::new(),
                        1 => (0..rng.usize_below(6)).map(|_| format!("{} {} {}", rng.below(5), rng.below(5), rng.next_u64())).collect::<Vec<_>>().join("\n"),
                        _ => {
                            let base = &texts[rng.usize_below(texts.len())];
                            mutate_text(&mut rng, base)
                        }
                    };
                    let _ = std::fs::write(wdir.join(format!("m{i}.txt")), &t);
                    files.push(t);
                }
                let mut from = 0usize;
                while from < batch {
                    // address-space limit so that a huge allocation fails instead of eating memory
                    let cmd = format!("ulimit -v 8000000; exec '{}' worker bristol-import '{}' {} {}", exe.display(), wdir.display(), from, batch);
                    let Some(out) = run_with_timeout(&cmd, &wdir, 60) else {
                        ctx.inconclusive("cannot spawn import worker");
                        return (counts, total, sample);
                    };
                    let stdout = out.stdout.clone();
                    let mut last_begin: Option<usize> = None;
                    let mut last_done: Option<usize> = None;
                    for line in stdout.lines() {
                        let mut it = line.splitn(3, ' ');
                        let (Some(i), Some(kind)) = (it.next().and_then(|s| s.parse::<usize>().ok()), it.next()) else { continue };
                        let rest = it.next().unwrap_or("");
                        match kind {
                            "begin" => last_begin = Some(i),
                            "ok" | "err" => {
                                last_done = Some(i);
                                total += 1;
                                counts.inc(&format!("{kind}:{}", rest.split(':').next().unwrap_or("")));
                                if kind == "ok" && rest.starts_with("invalid") {
                                    // the importer returned a circuit that does not validate: it neither
                                    // computes the file's function nor was rejected
                                    counts.inc("accepted-but-invalid");
                                }
                                if sample.is_none() && kind == "err" && files[i].lines().count() < 10 {
                                    sample = Some(json!({"mutated_file": files[i], "importer": format!("{kind} {rest}")}));
                                }
                            }
                            "panic" => {
                                last_done = Some(i);
                                total += 1;
                                counts.inc("panic");
                                ctx.violation(&format!("importer: {rest}"), json!({"kind": "bristol-file", "file": files[i], "outcome": rest}));
                            }
                            _ => {}
                        }
                    }
                    if out.success {
                        break;
                    }
                    if out.timed_out {
                        // the importer did not return within 60 s on the file it had begun
                        if let Some(i) = last_begin {
                            total += 1;
                            counts.inc("timeout");
                            ctx.violation("importer does not terminate (no result within 60 s)", json!({"kind": "bristol-file", "file": files[i], "outcome": "timeout"}));
                            from = i + 1;
                            continue;
                        }
                    }
                    // the worker died while processing `last_begin`
                    match last_begin {
                        Some(i) if Some(i) != last_done => {
                            total += 1;
                            let stderr = out.stderr.clone();
                            let alloc_bytes: Option<u64> = stderr
                                .split("memory allocation of ")
                                .nth(1)
                                .and_then(|r| r.split(' ').next())
                                .and_then(|n| n.parse().ok());
                            if matches!(alloc_bytes, Some(b) if b / 8 <= u32::MAX as u64 + 1) {
                                // the file declares a wire count within the circuit size limit that
                                // merely exceeds this worker's 8 GB address-space limit: a resource
                                // limit of the sandbox, not a defect of the importer
                                counts.inc("resource-limit:allocation-within-size-limit");
                            } else if stderr.contains("memory allocation of") || stderr.contains("capacity overflow") {
                                // allocation failure under the address-space limit: the file asks for more
                                // wires than can be allocated; an abort, not a Rust panic
                                counts.inc("abort:allocation-failure");
                                ctx.violation(
                                    &format!("importer aborts the process on a file declaring a huge wire count ({})", stderr.lines().next().unwrap_or("")),
                                    json!({"kind": "bristol-file", "file": files[i], "outcome": stderr.chars().take(300).collect::<String>()}),
                                );
                            } else {
                                counts.inc("abort:other");
                                ctx.violation(&format!("importer worker died: {} {}", out.status, stderr.lines().next().unwrap_or("")), json!({"kind": "bristol-file", "file": files[i], "outcome": stderr.chars().take(300).collect::<String>()}));
                            }
                            from = i + 1;
                        }
                        _ => {
                            ctx.inconclusive(&format!("import worker failed without progress: {}", out.status));
                            from = batch;
                        }
                    }
                }
            }
            let _ = std::fs::remove_dir_all(&wdir);
            (counts, total, sample)
        });
        for (c, t, s) in results {
            import_counts.merge(&c);
            mutants_total += t;
            if samples.len() < 5 {
                samples.extend(s);
            }
        }
    }
    let _ = std::fs::remove_dir_all(&dir);

    let mut cov = Map::new();
    cov.insert("evaluations".into(), json!(st.exported + mutants_total));
    cov.insert("distinct_nontrivial".into(), json!(distinct.len()));
    cov.insert("rule".into(), json!("export cases: one circuit each (compiled program or builder/gate-list with chosen output shape), distinct by structural/source hash, checked for Bristol well-formedness with an independent parser and for output equality (text and re-import) on all inputs (<= 14 input bits) or random lanes; import cases: mutated export files run through the importer in an isolated worker process (counted, not de-duplicated)"));
    cov.insert("circuits_exported".into(), json!(st.exported));
    cov.insert("circuits_reimported".into(), json!(st.imported));
    cov.insert("exports_with_repeated_outputs".into(), json!(st.dealiased));
    cov.insert("exports_refused_output_is_input".into(), json!(st.refused_input_outputs));
    cov.insert("input_lanes_evaluated".into(), json!(st.lanes));
    cov.insert("by_source".into(), st.counts.to_json());
    cov.insert("mutated_files_imported".into(), json!(mutants_total));
    cov.insert("importer_outcomes".into(), import_counts.to_json());
    cov.insert("exhaustive".into(), json!(false));
    cov.insert("samples".into(), json!(samples));
    if st.dealiased == 0 {
        ctx.inconclusive("no export with repeated outputs was observed");
    }
    ctx.finish(cov, vec!["independent Bristol parser / evaluator written from the format description".into()], 100)
}
