//! One monitor per property.

use crate::util::{Ctx, Tier};

pub mod c03;

pub fn run(id: &str, tier: Tier, seed: u64) -> i32 {
    match id {
        "C03" => c03::run(&Ctx::new(id, tier, seed, 40.0, 360.0)),
        _ => {
            eprintln!("unknown property {id}");
            2
        }
    }
}

pub fn replay(id: &str, path: &str) -> i32 {
    eprintln!("replay for {id} not implemented yet ({path})");
    2
}

pub fn worker_main(_args: &[String]) -> i32 {
    2
}
