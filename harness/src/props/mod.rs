//! One monitor per property.

use crate::util::{Ctx, Tier};

pub mod c03;
pub mod c04;
pub mod c05;
pub mod c05_shapes;
pub mod c06;
pub mod c07;
pub mod c07_grid;
pub mod c08;
pub mod c09;
pub mod c10;
pub mod c11;
pub mod c12;
pub mod c13;
pub mod c15;
pub mod c16;
pub mod c17;
pub mod progs;

pub fn c04_op_programs() -> Vec<String> {
    c04::op_programs()
}

pub fn run(id: &str, tier: Tier, seed: u64) -> i32 {
    match id {
        "C01" => progs::run(&Ctx::new(id, tier, seed, 60.0, 720.0), progs::Kind::C01),
        "C02" => progs::run(&Ctx::new(id, tier, seed, 60.0, 720.0), progs::Kind::C02),
        "C14" => progs::run(&Ctx::new(id, tier, seed, 60.0, 720.0), progs::Kind::C14),
        "C03" => c03::run(&Ctx::new(id, tier, seed, 40.0, 360.0)),
        "C04" => c04::run(&Ctx::new(id, tier, seed, 60.0, 1800.0)),
        "C05" => c05::run(&Ctx::new(id, tier, seed, 60.0, 600.0)),
        "C06" => c06::run(&Ctx::new(id, tier, seed, 45.0, 480.0)),
        "C07" => c07::run(&Ctx::new(id, tier, seed, 90.0, 900.0)),
        "C08" => c08::run(&Ctx::new(id, tier, seed, 60.0, 600.0)),
        "C09" => c09::run(&Ctx::new(id, tier, seed, 45.0, 360.0)),
        "C10" => c10::run(&Ctx::new(id, tier, seed, 40.0, 360.0)),
        "C11" => c11::run(&Ctx::new(id, tier, seed, 45.0, 360.0)),
        "C12" => c12::run(&Ctx::new(id, tier, seed, 60.0, 480.0)),
        "C13" => c13::run(&Ctx::new(id, tier, seed, 60.0, 600.0)),
        "C15" => c15::run(&Ctx::new(id, tier, seed, 30.0, 240.0)),
        "C17" => c17::run(&Ctx::new(id, tier, seed, 45.0, 480.0)),
        "C16" => c16::run(&Ctx::new(id, tier, seed, 30.0, 300.0)),
        _ => {
            eprintln!("unknown property {id}");
            2
        }
    }
}

pub fn replay(id: &str, path: &str) -> i32 {
    match id {
        "C01" => progs::replay(progs::Kind::C01, path),
        "C02" => progs::replay(progs::Kind::C02, path),
        "C14" => progs::replay(progs::Kind::C14, path),
        _ => {
            // generic replay: the replay file holds the complete failing input; show it
            match std::fs::read_to_string(path) {
                Ok(t) => {
                    println!("{t}");
                    println!("note: {id} has no dedicated re-execution; the record above is the complete failing input");
                    2
                }
                Err(e) => {
                    eprintln!("cannot read {path}: {e}");
                    2
                }
            }
        }
    }
}

pub fn worker_main(args: &[String]) -> i32 {
    // a worker must not outlive its parent (the parent may be stopped by a watchdog while the
    // worker spins inside the code under test)
    let ppid = std::os::unix::process::parent_id();
    std::thread::spawn(move || loop {
        std::thread::sleep(std::time::Duration::from_millis(500));
        if std::os::unix::process::parent_id() != ppid {
            std::process::exit(9);
        }
    });
    match args.first().map(|s| s.as_str()) {
        Some("corpus-stats") => {
            // debugging aid: compile time and size of every corpus program (isolated per program by
            // a time limit enforced by the caller)
            let progs = crate::corpus::load();
            let only: Option<usize> = args.get(1).and_then(|s| s.parse().ok());
            for (i, (origin, src)) in progs.iter().enumerate() {
                if let Some(o) = only {
                    if o != i {
                        continue;
                    }
                }
                let t0 = std::time::Instant::now();
                let r = crate::gl::compile(src, true, false);
                let dt = t0.elapsed().as_secs_f64();
                match r {
                    crate::gl::CompileOutcome::Ok(p) => println!("{i} {dt:.3}s gates={} {origin}", crate::gl::ssa(&p).gates.len()),
                    crate::gl::CompileOutcome::Rejected(k, _) => println!("{i} {dt:.3}s rejected:{k} {origin}"),
                    crate::gl::CompileOutcome::Crashed(m) => println!("{i} {dt:.3}s CRASH {m} {origin}"),
                }
            }
            0
        }
        Some("run") => {
            // triage aid: gverif worker run '<program>' <arg literal>...  -> compiles main and evaluates it
            let Some(prg) = args.get(1) else { return 2 };
            let r = crate::util::catch(|| -> Result<String, String> {
                let p = garble_lang::compile(prg).map_err(|e| format!("rejected: {}", e.prettify(prg)))?;
                let mut inputs = vec![];
                for (i, a) in args[2..].iter().enumerate() {
                    inputs.push(p.parse_arg(i, a).map_err(|e| format!("bad argument {a}: {e:?}"))?.as_bits());
                }
                let out = p.circuit.eval(&inputs);
                Ok(match p.parse_output(&out) {
                    Ok(l) => format!("{l}   [{} gates, {} and]", crate::gl::ssa(&p).gates.len(), crate::gl::ssa(&p).and_gates()),
                    Err(e) => format!("{e:?}"),
                })
            });
            println!("{r:?}");
            0
        }
        Some("compile-hash") => c06::worker(&args[1..]),
        Some("bristol-import") => c11::worker(&args[1..]),
        Some("fe") => c07::worker(&args[1..]),
        _ => 2,
    }
}
