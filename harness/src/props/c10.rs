//! C10 — the register circuit is equivalent to the SSA circuit and safe to execute.

use crate::bits::{self, RegStats};
use crate::circgen;
use crate::corpus;
use crate::gl::{self, CompileOutcome};
use crate::rng::Rng;
use crate::util::{catch, par, Counts, Ctx, WORKERS};
use garble_lang::circuit::{Circuit, Gate};
use garble_lang::register_circuit as rc;
use serde_json::{json, Map, Value};

pub fn circuit_json(c: &Circuit) -> Value {
    json!({
        "input_gates": c.input_gates,
        "gates": c.gates.iter().map(|g| match g {
            Gate::Xor(a, b) => format!("Xor({a},{b})"),
            Gate::And(a, b) => format!("And({a},{b})"),
            Gate::Not(a) => format!("Not({a})"),
        }).collect::<Vec<_>>(),
        "output_gates": c.output_gates,
    })
}

pub fn reg_json(c: &rc::Circuit) -> Value {
    json!({
        "input_regs": c.input_regs,
        "max_reg_count": c.max_reg_count,
        "and_ops": c.and_ops,
        "output_regs": c.output_regs.iter().map(|r| r.0).collect::<Vec<_>>(),
        "insts": c.insts.iter().map(|i| format!("{:?} <- {:?}", i.out.0, i.op)).collect::<Vec<_>>(),
    })
}

#[derive(Default)]
pub struct ConvStats {
    pub conversions: u64,
    pub lanes: u64,
    pub exhaustive_inputs: u64,
    pub reg: RegStats,
    pub max_fanout: u64,
    pub regs_saved: u64,
    pub counts: Counts,
}

/// Convert a valid SSA circuit and check every clause of C10. Returns Err(description) on a
/// violation.
pub fn check_conversion(ssa: &Circuit, rng: &mut Rng, st: &mut ConvStats, max_batches: u64) -> Result<(), String> {
    let conv = catch(|| rc::Circuit::from(ssa)).map_err(|p| format!("conversion panicked: {p}"))?;
    st.conversions += 1;
    match catch(|| conv.validate()) {
        Err(p) => return Err(format!("validate() of the converted circuit panicked: {p}")),
        Ok(Err(e)) => return Err(format!("converted circuit fails its own validate(): {e:?}")),
        Ok(Ok(())) => {}
    }
    if conv.input_regs != ssa.input_gates {
        return Err(format!("input_regs {:?} != input_gates {:?}", conv.input_regs, ssa.input_gates));
    }
    // inputs first, in order
    let mut k = 0usize;
    for (p, n) in ssa.input_gates.iter().enumerate() {
        for i in 0..*n {
            match conv.insts.get(k) {
                Some(rc::Inst { out, op: rc::Op::Input(rc::Input { party, input }) })
                    if *party as usize == p && *input as usize == i && out.0 as usize == k => {}
                other => return Err(format!("instruction {k} should load input {i} of party {p} into register {k}, found {other:?}")),
            }
            k += 1;
        }
    }
    if conv.insts.len() != k + ssa.gates.len() {
        return Err(format!("{} instructions for {} inputs + {} gates", conv.insts.len(), k, ssa.gates.len()));
    }
    let wires = ssa.wires_len();
    if conv.max_reg_count > wires {
        return Err(format!("declares {} registers for {} wires", conv.max_reg_count, wires));
    }
    if conv.and_ops != ssa.and_gates() {
        return Err(format!("and_ops {} != and_gates() {}", conv.and_ops, ssa.and_gates()));
    }
    if conv.output_regs.len() != ssa.output_gates.len() {
        return Err("number of outputs differs".into());
    }
    st.regs_saved += (wires - conv.max_reg_count) as u64;
    // function + definedness
    let n_in: usize = ssa.input_gates.iter().sum();
    let exhaustive = n_in <= 16 && bits::exhaustive_batches(n_in) <= max_batches;
    let batches = if exhaustive { bits::exhaustive_batches(n_in) } else { max_batches.min(8) };
    for b in 0..batches {
        let inputs = if exhaustive { bits::exhaustive_batch(n_in, b) } else { (0..n_in).map(|_| rng.next_u64()).collect() };
        let want = bits::eval_ssa(ssa, &inputs).map_err(|e| format!("harness: SSA circuit not evaluable: {e}"))?;
        let got = bits::eval_reg(&conv, &inputs, &mut st.reg).map_err(|e| format!("register circuit: {e}"))?;
        st.lanes += 64;
        for (o, (w, g)) in want.iter().zip(got.iter()).enumerate() {
            if w != g {
                let l = (w ^ g).trailing_zeros() as usize;
                return Err(format!(
                    "output {o} differs on input {:?}: SSA {} register {}",
                    bits::lane(&inputs, l).iter().map(|b| *b as u8).collect::<Vec<_>>(),
                    (w >> l) & 1,
                    (g >> l) & 1
                ));
            }
        }
        if b == 0 {
            // garble's own evaluators on lane 0
            let mut parts = vec![];
            let mut off = 0;
            for n in &ssa.input_gates {
                parts.push((0..*n).map(|i| inputs[off + i] & 1 == 1).collect::<Vec<bool>>());
                off += n;
            }
            let r = catch(|| (ssa.eval(&parts), conv.eval(&parts))).map_err(|p| format!("garble eval panicked: {p}"))?;
            if r.0 != r.1 || r.0 != bits::lane(&want, 0) {
                return Err("garble's own SSA / register evaluators disagree (or disagree with the harness evaluator)".into());
            }
        }
    }
    if exhaustive {
        st.exhaustive_inputs += 1;
    }
    Ok(())
}

fn enumerate_small(ctx: &Ctx, st: &mut ConvStats, rng: &mut Rng, w: usize) -> u64 {
    // all SSA circuits with <= 2 input bits, <= 3 gates, <= 2 outputs
    let mut count = 0u64;
    let layouts: Vec<Vec<usize>> = vec![vec![1], vec![2], vec![1, 1]];
    let mut idx = 0usize;
    for layout in layouts {
        let n_in: usize = layout.iter().sum();
        for n_gates in 0..=3usize {
            // enumerate gate lists recursively
            let mut stack: Vec<Vec<Gate>> = vec![vec![]];
            let mut complete: Vec<Vec<Gate>> = vec![];
            while let Some(gs) = stack.pop() {
                if gs.len() == n_gates {
                    complete.push(gs);
                    continue;
                }
                let cur = n_in + gs.len();
                for a in 0..cur {
                    let mut g = gs.clone();
                    g.push(Gate::Not(a));
                    stack.push(g);
                    for b in 0..cur {
                        let mut g = gs.clone();
                        g.push(Gate::Xor(a, b));
                        stack.push(g);
                        let mut g = gs.clone();
                        g.push(Gate::And(a, b));
                        stack.push(g);
                    }
                }
            }
            for gates in complete {
                idx += 1;
                if idx % WORKERS != w {
                    continue;
                }
                let wires = n_in + gates.len();
                let mut outs: Vec<Vec<usize>> = (0..wires).map(|o| vec![o]).collect();
                for o1 in 0..wires {
                    for o2 in 0..wires {
                        outs.push(vec![o1, o2]);
                    }
                }
                for o in outs {
                    let c = Circuit { input_gates: layout.clone(), gates: gates.clone(), output_gates: o };
                    count += 1;
                    if let Err(e) = check_conversion(&c, rng, st, 1) {
                        ctx.violation(&format!("enumerated small circuit: {e}"), json!({"kind": "ssa", "circuit": circuit_json(&c), "problem": e}));
                    }
                }
                if ctx.stop.load(std::sync::atomic::Ordering::Relaxed) {
                    return count;
                }
            }
        }
    }
    count
}

pub fn run(ctx: &Ctx) -> i32 {
    // compiled circuits
    let mut programs: Vec<(String, String)> = corpus::load();
    programs.extend(super::c04_op_programs().into_iter().enumerate().map(|(i, p)| (format!("op-program-{i}"), p)));
    let results = par(WORKERS, |w| {
        let mut st = ConvStats::default();
        let mut rng = Rng::derive(ctx.seed, 0x1000 + w as u64);
        let mut samples: Vec<Value> = vec![];
        let mut distinct = std::collections::HashSet::new();
        // (c) exhaustive small circuits
        let n_enum = enumerate_small(ctx, &mut st, &mut rng, w);
        st.counts.add("enumerated_small_circuits", n_enum);
        // (a) compiled circuits
        for (i, (origin, src)) in programs.iter().enumerate() {
            if i % WORKERS != w || ctx.out_of_time() {
                continue;
            }
            let t0 = std::time::Instant::now();
            for dedup in [true, false] {
                if let CompileOutcome::Ok(p) = gl::compile(src, dedup, false) {
                    let c = gl::ssa(&p);
                    if c.gates.len() > 400_000 {
                        st.counts.inc("skipped_too_big");
                        continue;
                    }
                    st.counts.inc("compiled_circuits");
                    distinct.insert(crate::util::fnv(format!("{dedup}{src}").as_bytes()));
                    if let Err(e) = check_conversion(c, &mut rng, &mut st, 4) {
                        ctx.violation(&format!("compiled circuit of {origin} (dedup={dedup}): {e}"), json!({"kind": "program", "program": src, "dedup": dedup, "problem": e}));
                    }
                    // also through the public option
                    if let CompileOutcome::Ok(pr) = gl::compile(src, dedup, true) {
                        match &pr.circuit {
                            garble_lang::circuit_type::CircuitType::Register(r) => {
                                match crate::util::catch(|| rc::Circuit::from(c)) {
                                    Ok(converted) => {
                                        if r != &converted {
                                            ctx.violation(&format!("CircuitKind::Register differs from converting the SSA circuit for {origin}"), json!({"kind": "program", "program": src, "dedup": dedup}));
                                        }
                                    }
                                    Err(p) => ctx.violation(&format!("conversion of the compiled circuit of {origin} panicked: {p}"), json!({"kind": "program", "program": src, "dedup": dedup})),
                                }
                                let counts = crate::util::catch(|| (pr.circuit.ops(), pr.circuit.ands()));
                                if counts.as_ref().ok() != Some(&(c.gates.len(), c.and_gates())) {
                                    ctx.violation(&format!("ops()/ands() of the register form differ from the SSA form for {origin}"), json!({"kind": "program", "program": src, "dedup": dedup}));
                                }
                            }
                            _ => ctx.violation("CircuitKind::Register did not produce a register circuit", json!({"program": src})),
                        }
                    }
                }
                if t0.elapsed().as_secs_f64() > 5.0 {
                    break;
                }
            }
        }
        // (b) random well-formed gate lists
        let mut n_random = 0u64;
        while !ctx.out_of_time() {
            let max_gates = *rng.pick(&[4usize, 12, 40, 120, 300]);
            let c = circgen::well_formed_ssa(&mut rng, max_gates);
            debug_assert!(c.validate().is_ok());
            n_random += 1;
            distinct.insert(crate::util::fnv(format!("{:?}", c).as_bytes()));
            match check_conversion(&c, &mut rng, &mut st, 1024) {
                Err(e) => ctx.violation(&format!("random well-formed circuit: {e}"), json!({"kind": "ssa", "circuit": circuit_json(&c), "problem": e})),
                Ok(()) => {
                    if samples.len() < 1 && c.gates.len() < 10 && c.gates.len() > 4 {
                        if let Ok(r) = crate::util::catch(|| rc::Circuit::from(&c)) {
                            samples.push(json!({"ssa": circuit_json(&c), "register": reg_json(&r)}));
                        }
                    }
                }
            }
        }
        st.counts.add("random_well_formed_circuits", n_random);
        (st, samples, distinct)
    });
    let mut tot = ConvStats::default();
    let mut samples = vec![];
    let mut distinct = std::collections::HashSet::new();
    for (st, s, d) in results {
        tot.conversions += st.conversions;
        tot.lanes += st.lanes;
        tot.exhaustive_inputs += st.exhaustive_inputs;
        tot.reg.reads += st.reg.reads;
        tot.reg.writes += st.reg.writes;
        tot.reg.overwrites += st.reg.overwrites;
        tot.regs_saved += st.regs_saved;
        tot.counts.merge(&st.counts);
        samples.extend(s.into_iter().take(1));
        distinct.extend(d);
    }
    samples.truncate(4);
    let mut cov = Map::new();
    cov.insert("evaluations".into(), json!(tot.conversions));
    cov.insert("distinct_nontrivial".into(), json!(distinct.len() as u64 + tot.counts.get("enumerated_small_circuits")));
    cov.insert("rule".into(), json!("a case is one SSA circuit converted to register form; distinct by structural hash (random / compiled) or by construction (enumerated); every case is checked for validate(), input order, register bounds, and_ops, and output equality with a definedness-tracking register interpreter on all inputs (<= 16 input bits) or random lanes"));
    cov.insert("conversions".into(), json!(tot.conversions));
    cov.insert("input_lanes_evaluated".into(), json!(tot.lanes));
    cov.insert("circuits_checked_on_all_inputs".into(), json!(tot.exhaustive_inputs));
    cov.insert("register_reads_checked_defined".into(), json!(tot.reg.reads));
    cov.insert("register_writes".into(), json!(tot.reg.writes));
    cov.insert("register_overwrites_observed".into(), json!(tot.reg.overwrites));
    cov.insert("registers_saved_vs_wires".into(), json!(tot.regs_saved));
    cov.insert("by_source".into(), tot.counts.to_json());
    cov.insert("enumeration_of_small_circuits_complete".into(), json!(!ctx.stop.load(std::sync::atomic::Ordering::Relaxed)));
    cov.insert("exhaustive".into(), json!(false));
    cov.insert("samples".into(), json!(samples));
    if tot.reg.overwrites == 0 {
        ctx.inconclusive("no register reuse was ever observed");
    }
    ctx.finish(cov, vec!["harness SSA / register interpreters (cross-checked against garble's own on one lane per circuit)".into()], 1000)
}
