//! C03 — integer operators and casts are bit-exact at every width and overflow boundary.
//!
//! Oracle: Rust-like checked arithmetic computed on i128 (`ints.rs`). Every judged execution is a
//! real compile + circuit evaluation through the public API, evaluated 64 operand tuples at a time
//! by the harness' own bit-parallel evaluator (garble's own `eval`/`parse_output` are
//! cross-checked on a sample).

use crate::bits;
use crate::gl::{self, CompileOutcome};
use crate::ints::{self, Arith, BinOp, IntTy, Reason};
use crate::rng::Rng;
use crate::util::{par, Counts, Ctx, Tier, WORKERS};
use serde_json::{json, Map, Value};
use std::sync::Mutex;

#[derive(Clone, Copy, Debug, PartialEq, Eq)]
pub enum Prim {
    Bool,
    Int(IntTy),
}

impl Prim {
    fn name(self) -> &'static str {
        match self {
            Prim::Bool => "bool",
            Prim::Int(t) => t.name(),
        }
    }
    fn bits(self) -> usize {
        match self {
            Prim::Bool => 1,
            Prim::Int(t) => t.bits as usize,
        }
    }
    fn lit(self, v: i128) -> String {
        match self {
            Prim::Bool => (if v != 0 { "true" } else { "false" }).to_string(),
            Prim::Int(t) => t.lit(v),
        }
    }
    fn to_raw(self, v: i128) -> u64 {
        match self {
            Prim::Bool => (v != 0) as u64,
            Prim::Int(t) => t.to_raw(v),
        }
    }
    fn from_raw(self, r: u64) -> i128 {
        match self {
            Prim::Bool => (r & 1) as i128,
            Prim::Int(t) => t.from_raw(r),
        }
    }
}

#[derive(Clone, Debug)]
enum Task {
    /// x op y, both inputs
    VarVar(BinOp, IntTy),
    /// x op C
    VarConst(BinOp, IntTy, i128),
    /// C op y
    ConstVar(BinOp, IntTy, i128),
    Neg(IntTy),
    Not(Prim),
    Cast(Prim, Prim),
    /// x as T1 as T2 ... (directly nested casts: every step has to extend / truncate on its own)
    CastChain(Prim, Vec<Prim>),
    /// x op1 (C op2 x) / x op1 (x op2 C) / x op1 (y op2 x): the operand is computed from the variable
    /// itself (partial products and sums that share wires with the other operand)
    Compound(BinOp, BinOp, IntTy, Option<i128>, bool),
    /// x op1 C1 op2 C2, written without parentheses (two literal steps in a row: every step is
    /// checked on its own, the steps must not be merged into one); bool: literals without suffix
    Chain(BinOp, i128, BinOp, i128, IntTy, bool),
    /// bool operators & | ^ == != on bool inputs
    BoolOp(BinOp),
    /// a VarConst / ConstVar task whose literal constant is written without its type suffix (the
    /// literal then gets its type from the other operand)
    SuffixFree(Box<Task>),
}

impl Task {
    fn key(&self) -> String {
        match self {
            Task::VarVar(op, t) => format!("{}:{}:var-var", op.sym(), t.name()),
            Task::VarConst(op, t, _) => format!("{}:{}:var-const", op.sym(), t.name()),
            Task::ConstVar(op, t, _) => format!("{}:{}:const-var", op.sym(), t.name()),
            Task::Neg(t) => format!("neg:{}", t.name()),
            Task::Not(t) => format!("not:{}", t.name()),
            Task::Cast(a, b) => format!("cast:{}->{}", a.name(), b.name()),
            Task::CastChain(a, bs) => format!("cast-chain:{}->{}", a.name(), bs.iter().map(|b| b.name()).collect::<Vec<_>>().join("->")),
            Task::Compound(o1, o2, t, c, _) => format!("{}({}):{}:compound-{}", o1.sym(), o2.sym(), t.name(), if c.is_some() { "const" } else { "var" }),
            Task::Chain(o1, _, o2, _, t, bare) => format!("{}{}:{}:literal-chain{}", o1.sym(), o2.sym(), t.name(), if *bare { "-suffix-free" } else { "" }),
            Task::BoolOp(op) => format!("{}:bool:var-var", op.sym()),
            Task::SuffixFree(t) => format!("{}:suffix-free-literal", t.key()),
        }
    }

    /// (source, parameter types, result type)
    fn program(&self) -> (String, Vec<Prim>, Prim) {
        if let Task::SuffixFree(inner) = self {
            let (src, params, r) = inner.program();
            let lit = match &**inner {
                Task::VarConst(op, t, c) => (if op.is_shift() { ints::U8 } else { *t }).lit(*c),
                Task::ConstVar(_, t, c) => t.lit(*c),
                _ => panic!("harness: SuffixFree wraps a constant-operand task"),
            };
            let bare: String = lit.chars().take_while(|ch| *ch == '-' || ch.is_ascii_digit()).collect();
            return (src.replacen(&lit, &bare, 1), params, r);
        }
        let res = |op: BinOp, t: IntTy| if op.is_cmp() { Prim::Bool } else { Prim::Int(t) };
        let rhs_ty = |op: BinOp, t: IntTy| if op.is_shift() { ints::U8 } else { t };
        match self {
            Task::VarVar(op, t) => {
                let r = res(*op, *t);
                let yt = rhs_ty(*op, *t);
                (
                    format!(
                        "pub fn main(x: {}, y: {}) -> {} {{ x {} y }}",
                        t.name(),
                        yt.name(),
                        r.name(),
                        op.sym()
                    ),
                    vec![Prim::Int(*t), Prim::Int(yt)],
                    r,
                )
            }
            Task::VarConst(op, t, c) => {
                let r = res(*op, *t);
                let yt = rhs_ty(*op, *t);
                (
                    format!(
                        "pub fn main(x: {}) -> {} {{ x {} {} }}",
                        t.name(),
                        r.name(),
                        op.sym(),
                        yt.lit(*c)
                    ),
                    vec![Prim::Int(*t)],
                    r,
                )
            }
            Task::ConstVar(op, t, c) => {
                let r = res(*op, *t);
                let yt = rhs_ty(*op, *t);
                (
                    format!(
                        "pub fn main(y: {}) -> {} {{ {} {} y }}",
                        yt.name(),
                        r.name(),
                        t.lit(*c),
                        op.sym()
                    ),
                    vec![Prim::Int(yt)],
                    r,
                )
            }
            Task::Neg(t) => (
                format!("pub fn main(x: {}) -> {} {{ -x }}", t.name(), t.name()),
                vec![Prim::Int(*t)],
                Prim::Int(*t),
            ),
            Task::Not(t) => (
                format!("pub fn main(x: {}) -> {} {{ !x }}", t.name(), t.name()),
                vec![*t],
                *t,
            ),
            Task::Cast(a, b) => (
                format!("pub fn main(x: {}) -> {} {{ x as {} }}", a.name(), b.name(), b.name()),
                vec![*a],
                *b,
            ),
            Task::CastChain(a, bs) => (
                format!(
                    "pub fn main(x: {}) -> {} {{ x{} }}",
                    a.name(),
                    bs.last().unwrap().name(),
                    bs.iter().map(|b| format!(" as {}", b.name())).collect::<String>()
                ),
                vec![*a],
                *bs.last().unwrap(),
            ),
            Task::Compound(o1, o2, t, c, const_first) => {
                let inner = match (c, const_first) {
                    (Some(c), true) => format!("{} {} x", t.lit(*c), o2.sym()),
                    (Some(c), false) => format!("x {} {}", o2.sym(), t.lit(*c)),
                    (None, _) => format!("y {} x", o2.sym()),
                };
                let params = if c.is_some() { format!("x: {}", t.name()) } else { format!("x: {0}, y: {0}", t.name()) };
                (
                    format!("pub fn main({params}) -> {} {{ x {} ({inner}) }}", t.name(), o1.sym()),
                    if c.is_some() { vec![Prim::Int(*t)] } else { vec![Prim::Int(*t), Prim::Int(*t)] },
                    Prim::Int(*t),
                )
            }
            Task::Chain(o1, c1, o2, c2, t, bare) => {
                let lit = |c: &i128| if *bare { c.to_string() } else { t.lit(*c) };
                (format!("pub fn main(x: {}) -> {} {{ x {} {} {} {} }}", t.name(), t.name(), o1.sym(), lit(c1), o2.sym(), lit(c2)), vec![Prim::Int(*t)], Prim::Int(*t))
            }
            Task::SuffixFree(_) => unreachable!(),
            Task::BoolOp(op) => (
                format!("pub fn main(x: bool, y: bool) -> bool {{ x {} y }}", op.sym()),
                vec![Prim::Bool, Prim::Bool],
                Prim::Bool,
            ),
        }
    }

    /// Reference result for the given argument values.
    fn expect(&self, args: &[i128]) -> Arith {
        match self {
            Task::VarVar(op, t) => ints::binop(*op, *t, args[0], args[1]),
            Task::VarConst(op, t, c) => ints::binop(*op, *t, args[0], *c),
            Task::ConstVar(op, t, c) => ints::binop(*op, *t, *c, args[0]),
            Task::SuffixFree(inner) => inner.expect(args),
            Task::Neg(t) => ints::neg(*t, args[0]),
            Task::Not(Prim::Bool) => Arith::Val((args[0] == 0) as i128),
            Task::Not(Prim::Int(t)) => Arith::Val(ints::not(*t, args[0])),
            Task::Cast(a, b) => Arith::Val(match (a, b) {
                (_, Prim::Bool) => args[0] & 1, // 1-bit truncation (declared reading)
                (Prim::Bool, Prim::Int(_)) => (args[0] != 0) as i128,
                (Prim::Int(f), Prim::Int(t)) => ints::cast(*f, *t, args[0]),
            }),
            Task::CastChain(a, bs) => {
                let mut from = *a;
                let mut v = args[0];
                for b in bs {
                    let Arith::Val(w) = Task::Cast(from, *b).expect(&[v]) else { unreachable!() };
                    v = w;
                    from = *b;
                }
                Arith::Val(v)
            }
            Task::Compound(o1, o2, t, c, const_first) => {
                let x = args[0];
                let inner = match (c, const_first) {
                    (Some(c), true) => ints::binop(*o2, *t, *c, x),
                    (Some(c), false) => ints::binop(*o2, *t, x, *c),
                    (None, _) => ints::binop(*o2, *t, args[1], x),
                };
                match inner {
                    Arith::Val(v) => ints::binop(*o1, *t, x, v),
                    other => other,
                }
            }
            Task::Chain(o1, c1, o2, c2, t, _) => match ints::binop(*o1, *t, args[0], *c1) {
                Arith::Val(v) => ints::binop(*o2, *t, v, *c2),
                other => other,
            },
            Task::BoolOp(op) => {
                let (a, b) = (args[0] != 0, args[1] != 0);
                Arith::Val(match op {
                    BinOp::BitAnd | BinOp::AndAnd => a & b,
                    BinOp::BitOr | BinOp::OrOr => a | b,
                    BinOp::BitXor => a ^ b,
                    BinOp::Eq => a == b,
                    BinOp::Ne => a != b,
                    _ => unreachable!(),
                } as i128)
            }
        }
    }
}

struct TaskResult {
    key: String,
    evaluated: u64,
    exhaustive: bool,
    panics_expected: u64,
    mismatches: u64,
    known: u64,
    witnesses: Vec<Value>,
    sample: Option<Value>,
    error: Option<String>,
}

fn all_values(p: Prim) -> Option<Vec<i128>> {
    match p {
        Prim::Bool => Some(vec![0, 1]),
        Prim::Int(t) if t.bits <= 8 => Some((t.min_val()..=t.max_val()).collect()),
        _ => None,
    }
}

fn all_values16(p: Prim) -> Option<Vec<i128>> {
    match p {
        Prim::Int(t) if t.bits == 16 => Some((t.min_val()..=t.max_val()).collect()),
        _ => all_values(p),
    }
}

fn sample_values(rng: &mut Rng, p: Prim, n_random: usize) -> Vec<i128> {
    match p {
        Prim::Bool => vec![0, 1],
        Prim::Int(t) => {
            let mut v = ints::boundary_values(t);
            for _ in 0..n_random {
                v.push(t.from_raw(rng.next_u64()));
            }
            v
        }
    }
}

/// Operator-specific operand pairs for wide types.
fn special_pairs(op: BinOp, t: IntTy) -> Vec<(i128, i128)> {
    let mut v = vec![];
    let n = t.bits as u32;
    match op {
        BinOp::Mul => {
            for a in 0..n {
                for b in 0..n {
                    if a + b + 2 >= n && a + b <= n {
                        for (sa, sb) in [(1i128, 1i128), (1, -1), (-1, 1), (-1, -1)] {
                            for (da, db) in [(0i128, 0i128), (-1, 0), (0, -1), (1, 0), (0, 1)] {
                                let x = sa * ((1i128 << a) + da);
                                let y = sb * ((1i128 << b) + db);
                                if t.fits(x) && t.fits(y) {
                                    v.push((x, y));
                                }
                            }
                        }
                    }
                }
            }
        }
        BinOp::Div | BinOp::Rem => {
            for x in [t.min_val(), t.min_val() + 1, t.max_val(), 0, 1, -1, 7, -7] {
                for y in [0i128, 1, -1, 2, -2, t.min_val(), t.max_val()] {
                    if t.fits(x) && t.fits(y) {
                        v.push((x, y));
                    }
                }
            }
        }
        BinOp::Shl | BinOp::Shr => {
            for x in [t.min_val(), t.max_val(), 1, -1, 0, t.max_val() / 3] {
                for y in [0i128, 1, n as i128 - 1, n as i128, n as i128 + 1, 63, 64, 65, 127, 128, 255] {
                    if t.fits(x) && y <= 255 {
                        v.push((x, y));
                    }
                }
            }
        }
        _ => {}
    }
    v
}

fn run_task(ctx: &Ctx, task: &Task, tuples: &[Vec<i128>], exhaustive: bool, dedup: bool, cross_check: bool) -> TaskResult {
    let (src, ptys, rty) = task.program();
    let mut res = TaskResult {
        key: task.key(),
        evaluated: 0,
        exhaustive,
        panics_expected: 0,
        mismatches: 0,
        known: 0,
        witnesses: vec![],
        sample: None,
        error: None,
    };
    let prg = match gl::compile(&src, dedup, false) {
        CompileOutcome::Ok(p) => p,
        CompileOutcome::Rejected(kind, msg) => {
            res.error = Some(format!("program rejected ({kind}): {src}\n{msg}"));
            return res;
        }
        CompileOutcome::Crashed(p) => {
            res.error = Some(format!("compiler crashed on {src}: {p}"));
            return res;
        }
    };
    let circ = gl::ssa(&prg);
    let in_bits: usize = ptys.iter().map(|p| p.bits()).sum();
    let rbits = rty.bits();
    if circ.input_gates.iter().sum::<usize>() != in_bits || circ.output_gates.len() != gl::PANIC_BITS + rbits {
        res.error = Some(format!(
            "unexpected circuit shape for {src}: inputs {:?}, {} outputs",
            circ.input_gates,
            circ.output_gates.len()
        ));
        return res;
    }
    for chunk in tuples.chunks(64) {
        // pack lanes
        let mut words = vec![0u64; in_bits];
        for (l, tup) in chunk.iter().enumerate() {
            let mut k = 0;
            for (p, v) in ptys.iter().zip(tup.iter()) {
                let raw = p.to_raw(*v);
                let nb = p.bits();
                for b in 0..nb {
                    if (raw >> (nb - 1 - b)) & 1 == 1 {
                        words[k + b] |= 1u64 << l;
                    }
                }
                k += nb;
            }
        }
        let out = match bits::eval_ssa(circ, &words) {
            Ok(o) => o,
            Err(e) => {
                res.error = Some(format!("evaluation of compiled circuit failed: {e} ({src})"));
                return res;
            }
        };
        for (l, tup) in chunk.iter().enumerate() {
            res.evaluated += 1;
            let exp = task.expect(tup);
            let got_panic = gl::decode_panic(&out, l);
            let mut raw = 0u64;
            for b in 0..rbits {
                raw = (raw << 1) | ((out[gl::PANIC_BITS + b] >> l) & 1);
            }
            let got_val = rty.from_raw(raw);
            let ok = match (&exp, &got_panic) {
                (Arith::Val(v), None) => *v == got_val,
                (Arith::Panic(r), Some(p)) => p.reason == r.code(),
                (Arith::Either(v, _), None) => *v == got_val,
                (Arith::Either(_, r), Some(p)) => p.reason == r.code(),
                _ => false,
            };
            if matches!(exp, Arith::Panic(_)) {
                res.panics_expected += 1;
            }
            let describe = |exp: &Arith| match exp {
                Arith::Val(v) => json!({"value": v.to_string()}),
                Arith::Panic(r) => json!({"panic": r.name()}),
                Arith::Either(v, r) => json!({"either_value": v.to_string(), "or_panic": r.name()}),
            };
            if res.sample.is_none() && res.evaluated > (tuples.len() as u64 / 3) {
                res.sample = Some(json!({
                    "program": src,
                    "args": tup.iter().map(|v| v.to_string()).collect::<Vec<_>>(),
                    "expected": describe(&exp),
                    "observed_panic": got_panic.as_ref().map(|p| gl::reason_name(p.reason)),
                    "observed_value": got_val.to_string(),
                }));
            }
            let core_task = match task {
                Task::SuffixFree(inner) => &**inner,
                t => t,
            };
            let known = !ok
                && match core_task {
                    Task::VarConst(BinOp::Mul, t, c) | Task::ConstVar(BinOp::Mul, t, c) => {
                        ints::kf_negconst_mul_lit(*t, *c, tup[0], if matches!(task, Task::SuffixFree(_)) { 32 } else { t.bits as i128 })
                            && matches!(exp, Arith::Val(v) if v == t.min_val())
                            && matches!(&got_panic, Some(p) if p.reason == Reason::Overflow.code())
                    }
                    _ => false,
                };
            if known {
                res.known += 1;
            } else if !ok {
                res.mismatches += 1;
                if res.witnesses.len() < 4 {
                    res.witnesses.push(json!({
                        "program": src,
                        "dedup": dedup,
                        "args": tup.iter().map(|v| v.to_string()).collect::<Vec<_>>(),
                        "expected": describe(&exp),
                        "observed_panic": got_panic.as_ref().map(|p| gl::reason_name(p.reason)),
                        "observed_value": got_val.to_string(),
                    }));
                }
            } else if cross_check && l == 0 {
                // garble's own eval + parse_output must agree with the harness' evaluator/decoder
                let argbits: Vec<Vec<bool>> = {
                    let mut v = vec![];
                    let mut k = 0;
                    for p in ptys.iter() {
                        v.push((0..p.bits()).map(|b| (words[k + b] >> l) & 1 == 1).collect());
                        k += p.bits();
                    }
                    v
                };
                let r = crate::util::catch(|| {
                    let o = prg.circuit.eval(&argbits);
                    (o.clone(), prg.parse_output(&o))
                });
                match r {
                    Ok((o, parsed)) => {
                        let mine = bits::lane(&out, l);
                        if o != mine {
                            res.mismatches += 1;
                            res.witnesses.push(json!({"program": src, "what": "garble eval differs from harness evaluator", "args": tup.iter().map(|v| v.to_string()).collect::<Vec<_>>()}));
                        }
                        let agree = match (&parsed, &exp) {
                            (Ok(lit), Arith::Val(v)) | (Ok(lit), Arith::Either(v, _)) => literal_num(lit) == Some(*v),
                            (Err(garble_lang::eval::EvalError::Panic(_)), Arith::Panic(_) | Arith::Either(_, _)) => true,
                            _ => false,
                        };
                        if !agree {
                            res.mismatches += 1;
                            res.witnesses.push(json!({"program": src, "what": format!("parse_output gives {parsed:?}"), "args": tup.iter().map(|v| v.to_string()).collect::<Vec<_>>(), "expected": describe(&exp)}));
                        }
                    }
                    Err(p) => {
                        res.mismatches += 1;
                        res.witnesses.push(json!({"program": src, "what": format!("eval/parse_output panicked: {p}")}));
                    }
                }
            }
        }
        if ctx.stop.load(std::sync::atomic::Ordering::Relaxed) {
            break;
        }
    }
    res
}

fn literal_num(l: &garble_lang::literal::Literal) -> Option<i128> {
    use garble_lang::literal::Literal as L;
    match l {
        L::True => Some(1),
        L::False => Some(0),
        L::NumUnsigned(n, _) => Some(*n as i128),
        L::NumSigned(n, _) => Some(*n as i128),
        _ => None,
    }
}

const INT_BINOPS: [BinOp; 16] = BinOp::ARITH;

fn build_tasks(tier: Tier, rng: &mut Rng) -> Vec<(Task, Vec<Vec<i128>>, bool)> {
    let mut tasks: Vec<(Task, Vec<Vec<i128>>, bool)> = vec![];
    let n_rand_pairs = tier.pick(3_000usize, 150_000usize);
    let n_rand_vals = tier.pick(200usize, 3000usize);
    for t in ints::ALL_INTS {
        let pt = Prim::Int(t);
        for op in INT_BINOPS {
            let yt = if op.is_shift() { ints::U8 } else { t };
            // ---- var op var
            if t.bits == 8 {
                let xs = all_values(pt).unwrap();
                let ys = all_values(Prim::Int(yt)).unwrap();
                let mut tuples = Vec::with_capacity(65536);
                for x in &xs {
                    for y in &ys {
                        tuples.push(vec![*x, *y]);
                    }
                }
                tasks.push((Task::VarVar(op, t), tuples, true));
            } else {
                let xs = ints::boundary_values(t);
                let ys = if op.is_shift() {
                    (0..=255).map(|v| v as i128).collect()
                } else {
                    ints::boundary_values(yt)
                };
                let mut tuples = vec![];
                for x in &xs {
                    for y in &ys {
                        tuples.push(vec![*x, *y]);
                    }
                }
                for (x, y) in special_pairs(op, t) {
                    tuples.push(vec![x, y]);
                }
                for _ in 0..n_rand_pairs {
                    let x = ints::random_value(rng, t);
                    let y = if op.is_shift() { rng.below(256) as i128 } else { ints::random_value(rng, yt) };
                    tuples.push(vec![x, y]);
                }
                // wide mul / div circuits are big; cap the number of tuples for 64-bit in quick
                if tier == Tier::Quick && t.bits == 64 && matches!(op, BinOp::Mul | BinOp::Div | BinOp::Rem) {
                    rng.shuffle(&mut tuples[..]);
                    tuples.truncate(40_000);
                }
                tasks.push((Task::VarVar(op, t), tuples, false));
            }
            // ---- var op const, const op var
            let consts: Vec<i128> = if t.bits == 8 {
                all_values(Prim::Int(yt)).unwrap()
            } else {
                let mut c = ints::boundary_values(yt);
                if c.len() > 40 {
                    // keep the extreme ones and a random subset
                    let keep = [yt.min_val(), yt.min_val() + 1, -2, -1, 0, 1, 2, 3, 7, 31, 32, 33, yt.max_val() - 1, yt.max_val()];
                    let mut k: Vec<i128> = keep.iter().copied().filter(|v| yt.fits(*v)).collect();
                    rng.shuffle(&mut c[..]);
                    k.extend(c.iter().take(tier.pick(10, 60)));
                    k.sort();
                    k.dedup();
                    c = k;
                }
                for _ in 0..tier.pick(4, 20) {
                    c.push(ints::random_value(rng, yt));
                }
                c
            };
            let lhs_consts: Vec<i128> = if t.bits == 8 {
                all_values(pt).unwrap()
            } else {
                let mut c = ints::boundary_values(t);
                let keep = [t.min_val(), t.min_val() + 1, -2, -1, 0, 1, 2, 3, 7, 31, 32, 33, t.max_val() - 1, t.max_val()];
                let mut k: Vec<i128> = keep.iter().copied().filter(|v| t.fits(*v)).collect();
                rng.shuffle(&mut c[..]);
                k.extend(c.iter().take(tier.pick(10, 60)));
                for _ in 0..tier.pick(4, 20) {
                    k.push(ints::random_value(rng, t));
                }
                k.sort();
                k.dedup();
                k
            };
            for c in consts {
                let (vals, exh) = match all_values(pt) {
                    Some(v) => (v, true),
                    None => (sample_values(rng, pt, n_rand_vals), false),
                };
                let argv: Vec<Vec<i128>> = vals.into_iter().map(|v| vec![v]).collect();
                tasks.push((Task::SuffixFree(Box::new(Task::VarConst(op, t, c))), argv.clone(), exh));
                tasks.push((Task::VarConst(op, t, c), argv, exh));
            }
            for c in lhs_consts {
                let (vals, exh) = match all_values(Prim::Int(yt)) {
                    Some(v) => (v, true),
                    None => (sample_values(rng, Prim::Int(yt), n_rand_vals), false),
                };
                let argv: Vec<Vec<i128>> = vals.into_iter().map(|v| vec![v]).collect();
                tasks.push((Task::SuffixFree(Box::new(Task::ConstVar(op, t, c))), argv.clone(), exh));
                tasks.push((Task::ConstVar(op, t, c), argv, exh));
            }
        }
        // unary
        let (vals, exh) = match all_values16(pt) {
            Some(v) => (v, true),
            None => (sample_values(rng, pt, n_rand_vals * 20), false),
        };
        if t.signed {
            tasks.push((Task::Neg(t), vals.iter().map(|v| vec![*v]).collect(), exh));
        }
        tasks.push((Task::Not(pt), vals.iter().map(|v| vec![*v]).collect(), exh));
    }
    tasks.push((Task::Not(Prim::Bool), vec![vec![0], vec![1]], true));
    for op in [BinOp::BitAnd, BinOp::BitOr, BinOp::BitXor, BinOp::Eq, BinOp::Ne, BinOp::AndAnd, BinOp::OrOr] {
        tasks.push((
            Task::BoolOp(op),
            vec![vec![0, 0], vec![0, 1], vec![1, 0], vec![1, 1]],
            true,
        ));
    }
    // casts
    let mut prims = vec![Prim::Bool];
    prims.extend(ints::ALL_INTS.iter().map(|t| Prim::Int(*t)));
    for a in &prims {
        for b in &prims {
            let (vals, exh) = match all_values16(*a) {
                Some(v) => (v, true),
                None => (sample_values(rng, *a, n_rand_vals * 20), false),
            };
            tasks.push((Task::Cast(*a, *b), vals.into_iter().map(|v| vec![v]).collect(), exh));
        }
    }
    // compound expressions whose operand is computed from the variable itself
    {
        let ops = [BinOp::Add, BinOp::Sub, BinOp::Mul, BinOp::BitAnd, BinOp::BitOr, BinOp::BitXor];
        for t in [ints::U8, ints::I8, ints::U16, ints::U64] {
            let small = t.bits == 8;
            let consts: Vec<i128> = if t.signed { vec![0, 1, 2, 3, 100, 127, -1, -2, -128] } else { vec![0, 1, 2, 3, 100, 127, 200, 255] };
            for o1 in ops {
                for o2 in ops {
                    for c in &consts {
                        if !small && !(rng.chance(1, 6)) {
                            continue;
                        }
                        // (multiplication by a negative literal is known finding KF-C03-1, judged by the
                        // constant-operand tasks; it is not repeated inside compound expressions)
                        if o2 == BinOp::Mul && *c < 0 {
                            continue;
                        }
                        for const_first in [true, false] {
                            let vals: Vec<Vec<i128>> = if small { (t.min_val()..=t.max_val()).map(|v| vec![v]).collect() } else { sample_values(rng, Prim::Int(t), 24).into_iter().map(|v| vec![v]).collect() };
                            tasks.push((Task::Compound(o1, o2, t, Some(*c), const_first), vals, small));
                        }
                    }
                    if small {
                        let vals: Vec<Vec<i128>> = (t.min_val()..=t.max_val()).flat_map(|a| (t.min_val()..=t.max_val()).step_by(5).map(move |b| vec![a, b])).collect();
                        tasks.push((Task::Compound(o1, o2, t, None, false), vals, false));
                    }
                }
            }
        }
    }
    // two literal steps in a row (left-nested, no parentheses)
    {
        let ops = [BinOp::Add, BinOp::Sub, BinOp::Mul];
        for t in [ints::U8, ints::I8, ints::U16, ints::I16, ints::I32, ints::USIZE, ints::U64, ints::I64] {
            let small = t.bits == 8;
            let consts: Vec<i128> = vec![1, 2, 3, 5, 10, 100, 127];
            for o1 in ops {
                for o2 in ops {
                    if o1 == BinOp::Mul && o2 == BinOp::Mul && !small {
                        continue;
                    }
                    // (`x + C1 * C2` is not a chain of two steps on x: the product binds tighter)
                    if o2 == BinOp::Mul && o1 != BinOp::Mul {
                        continue;
                    }
                    for c1 in &consts {
                        for c2 in &consts {
                            if !small && !rng.chance(1, 8) {
                                continue;
                            }
                            if small && !rng.chance(1, 3) {
                                continue;
                            }
                            let vals: Vec<Vec<i128>> = if small {
                                (t.min_val()..=t.max_val()).map(|v| vec![v]).collect()
                            } else {
                                // the ends of the type (where one step overflows and two steps cancel) and samples
                                let mut v: Vec<i128> = (0..=(c1 + c2)).flat_map(|d| [t.min_val() + d, t.max_val() - d]).collect();
                                v.extend(sample_values(rng, Prim::Int(t), 12));
                                v.into_iter().map(|x| vec![x]).collect()
                            };
                            tasks.push((Task::Chain(o1, *c1, o2, *c2, t, rng.bool()), vals, small));
                        }
                    }
                }
            }
        }
    }
    // cast chains: every triple of types, and sampled longer chains
    for a in &prims {
        for b in &prims {
            for c in &prims {
                let vals = sample_values(rng, *a, 24);
                tasks.push((Task::CastChain(*a, vec![*b, *c]), vals.into_iter().map(|v| vec![v]).collect(), false));
            }
        }
    }
    for _ in 0..if tier == Tier::Thorough { 3000 } else { 300 } {
        let a = *rng.pick(&prims);
        let n = 3 + rng.usize_below(3);
        let bs: Vec<Prim> = (0..n).map(|_| *rng.pick(&prims)).collect();
        let vals = sample_values(rng, a, 24);
        tasks.push((Task::CastChain(a, bs), vals.into_iter().map(|v| vec![v]).collect(), false));
    }
    tasks
}

pub fn run(ctx: &Ctx) -> i32 {
    let mut rng = Rng::derive(ctx.seed, 3);
    let mut tasks = build_tasks(ctx.tier, &mut rng);
    // thorough: repeat var-var tasks with de-duplication off
    let n_base = tasks.len();
    let results: Mutex<Vec<TaskResult>> = Mutex::new(vec![]);
    let next = std::sync::atomic::AtomicUsize::new(0);
    let dedup_off_too = ctx.tier == Tier::Thorough;
    // order tasks: biggest first for load balance
    tasks.sort_by_key(|t| std::cmp::Reverse(t.1.len()));
    par(WORKERS, |_w| loop {
        let i = next.fetch_add(1, std::sync::atomic::Ordering::SeqCst);
        if i >= tasks.len() {
            break;
        }
        let (task, tuples, exh) = &tasks[i];
        let r = run_task(ctx, task, tuples, *exh, true, true);
        results.lock().unwrap().push(r);
        if dedup_off_too && matches!(task, Task::VarVar(..) | Task::Neg(_) | Task::Cast(..)) {
            let mut r = run_task(ctx, task, tuples, *exh, false, false);
            r.key = format!("{}:dedup-off", r.key);
            results.lock().unwrap().push(r);
        }
    });
    let results = results.into_inner().unwrap();

    // aggregate per key
    let mut evaluated = 0u64;
    let mut per_key: std::collections::BTreeMap<String, (u64, u64, bool, u64, u64)> = Default::default();
    let mut samples = vec![];
    let mut panics = Counts::default();
    for r in &results {
        evaluated += r.evaluated;
        let e = per_key.entry(r.key.clone()).or_insert((0, 0, true, 0, 0));
        e.0 += r.evaluated;
        e.1 += 1;
        e.2 &= r.exhaustive;
        e.3 += r.panics_expected;
        e.4 += r.mismatches;
        panics.add("expected_panics", r.panics_expected);
        if let Some(err) = &r.error {
            // a C03 program that does not compile / evaluate is a harness-or-target failure; it is
            // a violation only if the target crashed
            if err.contains("crashed") || err.contains("evaluation of compiled circuit failed") || err.contains("unexpected circuit shape") {
                ctx.violation(&format!("{}: {}", r.key, err.lines().next().unwrap_or("")), json!({"error": err}));
            } else {
                ctx.inconclusive(&format!("{}: {}", r.key, err));
            }
        }
        for _ in 0..r.known {
            ctx.known_finding("KF-C03-1");
        }
        if r.mismatches > 0 {
            ctx.violation(
                &format!("{}: {} of {} operand tuples disagree with checked arithmetic", r.key, r.mismatches, r.evaluated),
                json!({"task": r.key, "mismatches": r.mismatches, "witnesses": r.witnesses}),
            );
        }
        if samples.len() < 12 && r.sample.is_some() && (r.evaluated % 7 == 3 || samples.len() < 4) {
            samples.push(r.sample.clone().unwrap());
        }
    }
    let mut cov = Map::new();
    cov.insert("evaluations".into(), json!(evaluated));
    // distinct non-trivial: distinct (program, operand tuple) executions are distinct by construction
    // within a task (value lists are sets for exhaustive tasks); count conservatively = number of
    // distinct programs (tasks) x 1 plus exhaustive tuples
    let distinct_programs = results.len() as u64;
    cov.insert("distinct_nontrivial".into(), json!(distinct_programs));
    cov.insert("rule".into(), json!("one compiled program per (operator, type, operand shape[, constant]); distinct_nontrivial counts distinct compiled programs (each evaluated on >= 2 operand tuples); evaluations counts operand tuples judged against i128 checked arithmetic"));
    cov.insert("programs".into(), json!(distinct_programs));
    cov.insert("tasks_planned".into(), json!(n_base));
    cov.insert(
        "per_operator_type_shape".into(),
        Value::Object(
            per_key
                .iter()
                .map(|(k, v)| {
                    (
                        k.clone(),
                        json!({"tuples": v.0, "programs": v.1, "exhaustive": v.2, "panics_expected": v.3, "mismatches": v.4}),
                    )
                })
                .collect(),
        ),
    );
    let exhaustive_keys = per_key.values().filter(|v| v.2).count();
    cov.insert("keys_exhaustive".into(), json!(exhaustive_keys));
    cov.insert("keys_total".into(), json!(per_key.len()));
    cov.insert("exhaustive".into(), json!(false));
    cov.insert("samples".into(), json!(samples));
    ctx.finish(
        cov,
        vec![
            "reference semantics: Rust checked_* arithmetic and `as`, computed on i128; int->bool cast judged as 1-bit truncation; MIN % -1 may give 0 or Overflow".into(),
            "harness bit-parallel evaluator (cross-checked against garble's eval/parse_output on one lane per batch)".into(),
        ],
        100,
    )
}
