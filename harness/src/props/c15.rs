//! C15 — circuits contain no useless gates; pure data movement costs zero AND gates.

use crate::corpus;
use crate::gl::{self, CompileOutcome};
use crate::rng::Rng;
use crate::util::{par, Counts, Ctx, WORKERS};
use garble_lang::circuit::{Circuit, Gate};
use serde_json::{json, Map, Value};
use std::collections::HashMap;

/// Structural predicates of C15 on one compiled circuit.
pub fn check_structure(c: &Circuit, dedup: bool, counts: &mut Counts) -> Result<(), String> {
    let n_in: usize = c.input_gates.iter().sum();
    let n = n_in + c.gates.len();
    if c.gates.len() < 2 {
        return Err("circuit has no constant gates".into());
    }
    let (cf, ct) = (n_in, n_in + 1);
    // reachability from the outputs
    let mut used = vec![false; n];
    let mut stack: Vec<usize> = c.output_gates.clone();
    while let Some(w) = stack.pop() {
        if w >= n {
            return Err(format!("output/operand wire {w} out of range"));
        }
        if used[w] {
            continue;
        }
        used[w] = true;
        if w >= n_in {
            match &c.gates[w - n_in] {
                Gate::Xor(a, b) | Gate::And(a, b) => {
                    stack.push(*a);
                    stack.push(*b);
                }
                Gate::Not(a) => stack.push(*a),
            }
        }
    }
    let mut and_pairs: HashMap<(usize, usize), usize> = HashMap::new();
    for (gi, g) in c.gates.iter().enumerate() {
        let w = n_in + gi;
        if !used[w] && w != cf && w != ct {
            return Err(format!("gate at wire {w} ({g:?}) contributes to no output"));
        }
        if let Gate::And(a, b) = g {
            counts.inc("and_gates_inspected");
            if *a == cf || *a == ct || *b == cf || *b == ct {
                return Err(format!("AND gate at wire {w} has a constant operand ({a}, {b}; constants are {cf}, {ct})"));
            }
            if a == b {
                return Err(format!("AND gate at wire {w} has the same wire {a} twice"));
            }
            if dedup {
                let key = (*a.min(b), *a.max(b));
                if let Some(prev) = and_pairs.insert(key, w) {
                    return Err(format!("AND gates at wires {prev} and {w} have the same operand pair {key:?}"));
                }
            }
        }
    }
    counts.add("gates_inspected", c.gates.len() as u64);
    Ok(())
}

// ---------------------------------------------------------------------------------------------
// data-movement programs: only copy / rearrange / destructure / re-pack input bits at constant
// positions

#[derive(Clone, Debug)]
enum T {
    Prim(&'static str),
    Tuple(Vec<T>),
    Array(Box<T>, usize),
}

impl T {
    fn show(&self) -> String {
        match self {
            T::Prim(p) => p.to_string(),
            T::Tuple(f) => format!("({})", f.iter().map(|t| t.show()).collect::<Vec<_>>().join(", ")),
            T::Array(e, n) => format!("[{}; {}]", e.show(), n),
        }
    }
    /// all leaf paths (as accessor suffixes) with their primitive type
    fn leaves(&self, prefix: &str, out: &mut Vec<(String, &'static str)>) {
        match self {
            T::Prim(p) => out.push((prefix.to_string(), p)),
            T::Tuple(f) => {
                for (i, t) in f.iter().enumerate() {
                    t.leaves(&format!("{prefix}.{i}"), out);
                }
            }
            T::Array(e, n) => {
                for i in 0..*n {
                    e.leaves(&format!("{prefix}[{i}]"), out);
                }
            }
        }
    }
}

const PRIMS: [&str; 9] = ["bool", "u8", "u16", "u32", "u64", "i8", "i16", "i32", "i64"];

fn gen_ty(rng: &mut Rng, depth: usize) -> T {
    if depth == 0 || rng.chance(2, 5) {
        return T::Prim(*rng.pick(&PRIMS));
    }
    if rng.bool() {
        let n = 2 + rng.usize_below(3);
        T::Tuple((0..n).map(|_| gen_ty(rng, depth - 1)).collect())
    } else {
        T::Array(Box::new(gen_ty(rng, depth - 1)), 1 + rng.usize_below(4))
    }
}

/// Build an expression of type `t` from input leaves of matching primitive type.
fn build(rng: &mut Rng, t: &T, leaves: &[(String, &'static str)], ok: &mut bool) -> String {
    match t {
        T::Prim(p) => {
            let cands: Vec<&(String, &'static str)> = leaves.iter().filter(|(_, q)| q == p).collect();
            if cands.is_empty() {
                // same-width cast from another leaf, or a literal
                let width = |q: &str| match q {
                    "bool" => 1,
                    "u8" | "i8" => 8,
                    "u16" | "i16" => 16,
                    "u32" | "i32" => 32,
                    _ => 64,
                };
                let same: Vec<&(String, &'static str)> = leaves.iter().filter(|(_, q)| width(q) == width(p) && *q != "bool").collect();
                if !same.is_empty() && *p != "bool" {
                    let (path, _) = rng.pick(&same);
                    return format!("(x{path} as {p})");
                }
                return if *p == "bool" { "true".to_string() } else { format!("7{p}") };
            }
            let (path, _) = rng.pick(&cands);
            format!("x{path}")
        }
        T::Tuple(f) => format!("({})", f.iter().map(|t| build(rng, t, leaves, ok)).collect::<Vec<_>>().join(", ")),
        T::Array(e, n) => format!("[{}]", (0..*n).map(|_| build(rng, e, leaves, ok)).collect::<Vec<_>>().join(", ")),
    }
}

fn data_movement_program(rng: &mut Rng) -> String {
    match rng.below(5) {
        0 => {
            // re-pack an arbitrary nested input into an arbitrary nested output
            let tin = gen_ty(rng, 3);
            let tout = gen_ty(rng, 3);
            let mut leaves = vec![];
            tin.leaves("", &mut leaves);
            let mut ok = true;
            let body = build(rng, &tout, &leaves, &mut ok);
            format!("pub fn main(x: {}) -> {} {{ {} }}", tin.show(), tout.show(), body)
        }
        1 => {
            // loop with compile-time counter writing at constant positions (doc example)
            let n = 2 + rng.usize_below(7);
            let (a, b, c) = (*rng.pick(&PRIMS[1..]), *rng.pick(&PRIMS[1..]), *rng.pick(&PRIMS[1..]));
            format!(
                "pub fn main(arr1: [({a}, {b}, {c}); {n}]) -> [(({a}, {b}), {c}); {n}] {{\n let mut arr2 = [((0{a}, 0{b}), 0{c}); {n}];\n let mut i = 0usize;\n for elem in arr1 {{\n  let (p, q, r) = elem;\n  arr2[i] = ((p, q), r);\n  i = i + 1usize;\n }}\n arr2\n}}"
            )
        }
        2 => {
            // shift an array by one position with constant indices
            let n = 2 + rng.usize_below(9);
            let t = *rng.pick(&PRIMS[1..]);
            format!(
                "pub fn main(arr: [{t}; {n}], x: {t}) -> [{t}; {n}] {{\n let mut arr2 = [0{t}; {n}];\n arr2[0] = x;\n for i in 1usize..{n}usize {{\n  arr2[i] = arr[i - 1usize]\n }}\n arr2\n}}"
            )
        }
        3 => {
            // struct / enum construction and destructuring through a helper function
            let (a, b) = (*rng.pick(&PRIMS), *rng.pick(&PRIMS));
            format!(
                "struct S {{ a: {a}, b: {b} }}\nenum E {{ L({a}), R({b}, {a}), N }}\nfn swap(s: S) -> ({b}, {a}) {{ let S {{ a, b }} = s; (b, a) }}\npub fn main(s: S, t: ({a}, {b})) -> (({b}, {a}), S, E, E) {{\n let (p, q) = t;\n let u = S {{ a: p, b: s.b }};\n (swap(s), u, E::R(q, p), E::L(s.a))\n}}"
            )
        }
        _ => {
            // reverse an array with constant-index reads and writes, tuple field updates
            let n = 2 + rng.usize_below(6);
            let t = *rng.pick(&PRIMS[1..]);
            let mut body = format!("let mut r = a;\n let mut t = (a[0], a[{}]);\n", n - 1);
            for i in 0..n {
                body += &format!(" r[{}] = a[{}];\n", i, n - 1 - i);
            }
            body += " t.0 = r[0];\n t.1 = a[0];\n (r, t)";
            format!("pub fn main(a: [{t}; {n}]) -> ([{t}; {n}], ({t}, {t})) {{\n {body}\n}}")
        }
    }
}

/// Programs that compute the same thing twice (two loops over the same join, the same call, the same
/// arithmetic): with de-duplication on the second copy must not add AND gates with operand pairs that
/// exist already.
fn repeated_program(rng: &mut Rng) -> String {
    let n = 1 + rng.usize_below(4);
    let m = 1 + rng.usize_below(4);
    let kt = *rng.pick(&["u8", "u16", "u32"]);
    let bodies = ["s = s ^ x.1 ^ y.1;", "s = s + x.1;", "s = (s << 1u8) ^ y.1;", "if x.1 > y.1 { s = s ^ x.1; }"];
    let (b1, b2) = (*rng.pick(&bodies), *rng.pick(&bodies));
    let ops = ["x * y", "x / y", "x + y", "x - y", "x % y", "(x * y) + (x / y)", "if x > y { x - y } else { y - x }", "(x & y) + (x ^ y)"];
    match rng.below(5) {
        0 => format!(
            "pub fn main(a: [({kt}, u16); {n}], b: [({kt}, u16); {m}]) -> (u16, u16) {{\n    let mut s = 0u16;\n    for (x, y) in join_iter(a, b) {{ {b1} }}\n    let s1 = s;\n    let mut s = 0u16;\n    for (x, y) in join_iter(a, b) {{ {b2} }}\n    (s1, s)\n}}\n"
        ),
        1 => format!(
            "pub fn main(a: [{kt}; {n}], b: [{kt}; {m}]) -> ([(bool, {kt}); const {{ {n}usize + {m}usize - 1usize }}], [(bool, {kt}); const {{ {n}usize + {m}usize - 1usize }}]) {{\n    let j1 = join(a, b);\n    let j2 = join(a, b);\n    (j1, j2)\n}}\n"
        ),
        2 => format!(
            "pub fn main(a: [({kt}, u16); {n}], b: [({kt}, u16); {m}]) -> u16 {{\n    let mut s = 0u16;\n    for (x, y) in join_iter(a, b) {{ {b1} }}\n    for r in join(a, b) {{ if r.0 {{ s = s ^ 1u16; }} }}\n    s\n}}\n"
        ),
        3 => {
            let op = *rng.pick(&ops);
            format!("fn f(x: {kt}, y: {kt}) -> {kt} {{ {op} }}\npub fn main(x: {kt}, y: {kt}, c: bool) -> ({kt}, {kt}) {{\n    let r1 = f(x, y);\n    let r2 = if c {{ f(x, y) }} else {{ f(y, x) }};\n    (r1, r2)\n}}\n")
        }
        _ => {
            let (o1, o2) = (*rng.pick(&ops), *rng.pick(&ops));
            format!("pub fn main(x: {kt}, y: {kt}) -> ({kt}, {kt}, {kt}) {{\n    let r1 = ({o1}) ^ ({o2});\n    let r2 = ({o2}) ^ ({o1});\n    let r3 = {{ let x = x; {o1} }};\n    (r1, r2, r3)\n}}\n")
        }
    }
}

/// A program above 2^20 gates (before pruning) that repeats some of its multiplications with the
/// operands swapped at the very end: size-triggered behaviour of the gate cache must not let
/// duplicates through.
fn large_repeating_program() -> String {
    let n = 42;
    let params: Vec<String> = (0..n).map(|i| format!("a{i}: u64, b{i}: u64")).collect();
    let mut body = String::from("    let mut s = 0u64;\n");
    for i in 0..n {
        body += &format!("    s = s ^ (a{i} * b{i});\n");
    }
    for i in 0..6 {
        body += &format!("    s = s ^ ((b{i} * a{i}) >> 1u8);\n");
    }
    format!("pub fn main({}) -> u64 {{\n{body}    s\n}}\n", params.join(", "))
}

pub fn run(ctx: &Ctx) -> i32 {
    let mut programs: Vec<(String, String)> = corpus::load();
    programs.push(("crafted-large-repeating-program".into(), large_repeating_program()));
    programs.extend(super::c04_op_programs().into_iter().enumerate().map(|(i, p)| (format!("op-program-{i}"), p)));
    let results = par(WORKERS, |w| {
        let mut rng = Rng::derive(ctx.seed, 0x1500 + w as u64);
        let mut counts = Counts::default();
        let mut distinct = std::collections::HashSet::new();
        let mut samples: Vec<Value> = vec![];
        let mut n = 0u64;
        for (i, (origin, src)) in programs.iter().enumerate() {
            if i % WORKERS != w {
                continue;
            }
            for dedup in [true, false] {
                let t0 = std::time::Instant::now();
                if let CompileOutcome::Ok(p) = gl::compile(src, dedup, false) {
                    n += 1;
                    counts.inc("corpus_circuits");
                    distinct.insert(crate::util::fnv(format!("{dedup}{src}").as_bytes()));
                    if let Err(e) = check_structure(gl::ssa(&p), dedup, &mut counts) {
                        ctx.violation(&format!("compiled circuit of {origin} (dedup={dedup}): {e}"), json!({"kind": "program", "program": src, "dedup": dedup, "problem": e}));
                    }
                }
                if t0.elapsed().as_secs_f64() > 5.0 {
                    break;
                }
            }
        }
        let mut turn = 0u64;
        while !ctx.out_of_time() {
            turn += 1;
            if turn % 2 == 0 {
                // general generated programs (all constructs, zero-sized return types included): the
                // structural predicates must hold for every compiled circuit
                let profile = *rng.pick(&[crate::model::gen::Profile::Mixed, crate::model::gen::Profile::MutationHeavy, crate::model::gen::Profile::PanicHeavy]);
                let mut cfg = crate::model::gen::GenCfg::new(profile);
                cfg.max_depth = 2 + rng.below(2) as u32;
                cfg.max_stmts = 2 + rng.usize_below(5);
                cfg.max_nodes = 40 + rng.usize_below(100);
                cfg.max_cost = 800;
                let (_prog, pr, _) = crate::model::exec::generate(&mut rng, cfg, crate::model::print::Layout::Compact);
                for dedup in [true, false] {
                    if let CompileOutcome::Ok(p) = gl::compile(&pr.src, dedup, false) {
                        n += 1;
                        let c = gl::ssa(&p);
                        counts.inc(if c.output_gates.len() == gl::PANIC_BITS { "generated_program_circuits_with_zero_sized_result" } else { "generated_program_circuits" });
                        distinct.insert(crate::util::fnv(format!("{dedup}{}", pr.src).as_bytes()));
                        if let Err(e) = check_structure(c, dedup, &mut counts) {
                            ctx.violation(&format!("generated program (dedup={dedup}): {e}"), json!({"kind": "program", "program": pr.src, "dedup": dedup, "problem": e}));
                        }
                    }
                }
                continue;
            }
            if turn % 4 == 1 {
                let src = repeated_program(&mut rng);
                for dedup in [true, false] {
                    match gl::compile(&src, dedup, false) {
                        CompileOutcome::Ok(p) => {
                            n += 1;
                            counts.inc("repeated_computation_circuits");
                            distinct.insert(crate::util::fnv(format!("{dedup}{src}").as_bytes()));
                            if let Err(e) = check_structure(gl::ssa(&p), dedup, &mut counts) {
                                ctx.violation(&format!("program that computes the same thing twice (dedup={dedup}): {e}"), json!({"kind": "program", "program": src, "dedup": dedup, "problem": e}));
                            }
                        }
                        CompileOutcome::Rejected(k, m) => {
                            counts.inc("repeated_computation_programs_rejected");
                            if counts.get("repeated_computation_programs_rejected") <= 1 {
                                ctx.inconclusive(&format!("repeated-computation program rejected ({k}): {src}\n{}", m.chars().take(300).collect::<String>()));
                            }
                        }
                        CompileOutcome::Crashed(m) => ctx.violation(&format!("compiler crashed on a repeated-computation program: {m}"), json!({"kind": "program", "program": src})),
                    }
                }
                continue;
            }
            let src = data_movement_program(&mut rng);
            for dedup in [true, false] {
                match gl::compile(&src, dedup, false) {
                    CompileOutcome::Ok(p) => {
                        n += 1;
                        counts.inc("data_movement_circuits");
                        distinct.insert(crate::util::fnv(format!("{dedup}{src}").as_bytes()));
                        let c = gl::ssa(&p);
                        if let Err(e) = check_structure(c, dedup, &mut counts) {
                            ctx.violation(&format!("data-movement program (dedup={dedup}): {e}"), json!({"kind": "program", "program": src, "dedup": dedup, "problem": e}));
                        }
                        if c.and_gates() != 0 {
                            ctx.violation(
                                &format!("data-movement program compiles to {} AND gates (dedup={dedup})", c.and_gates()),
                                json!({"kind": "program", "program": src, "dedup": dedup, "and_gates": c.and_gates()}),
                            );
                        }
                        if samples.len() < 1 && rng.chance(1, 50) {
                            samples.push(json!({"program": src, "gates": c.gates.len(), "and_gates": c.and_gates()}));
                        }
                    }
                    CompileOutcome::Rejected(k, m) => {
                        counts.inc("data_movement_rejected");
                        if counts.get("data_movement_rejected") < 3 {
                            ctx.inconclusive(&format!("generated data-movement program rejected ({k}): {src}\n{m}"));
                        }
                    }
                    CompileOutcome::Crashed(m) => {
                        ctx.violation(&format!("compiler crashed on a data-movement program: {m}"), json!({"kind": "program", "program": src}));
                    }
                }
            }
        }
        (n, counts, distinct, samples)
    });
    let mut n = 0;
    let mut counts = Counts::default();
    let mut distinct = std::collections::HashSet::new();
    let mut samples = vec![];
    for (k, c, d, s) in results {
        n += k;
        counts.merge(&c);
        distinct.extend(d);
        samples.extend(s);
    }
    samples.truncate(4);
    let mut cov = Map::new();
    cov.insert("evaluations".into(), json!(n));
    cov.insert("distinct_nontrivial".into(), json!(distinct.len()));
    cov.insert("rule".into(), json!("a case is one compiled circuit (program x dedup setting), distinct by source hash; checked: backward reachability of every non-constant gate from the outputs, no AND gate with a constant-gate operand or twice the same wire, (dedup on) no two AND gates on the same operand pair; generated data-movement programs additionally must have and_gates() == 0"));
    cov.insert("by_source".into(), counts.to_json());
    cov.insert("exhaustive".into(), json!(false));
    cov.insert("samples".into(), json!(samples));
    ctx.finish(cov, vec!["the constant gates are the two gates directly after the inputs".into()], 200)
}
