//! Independent 64-lane bit-parallel evaluators with definedness tracking for
//! SSA circuits, register circuits and Bristol-fashion text.

use garble_lang::circuit::{Circuit, Gate};
use garble_lang::register_circuit as rc;

pub const STD: [u64; 6] = [
    0xAAAA_AAAA_AAAA_AAAA,
    0xCCCC_CCCC_CCCC_CCCC,
    0xF0F0_F0F0_F0F0_F0F0,
    0xFF00_FF00_FF00_FF00,
    0xFFFF_0000_FFFF_0000,
    0xFFFF_FFFF_0000_0000,
];

/// Number of 64-lane batches needed to cover all assignments of `n` input bits.
pub fn exhaustive_batches(n: usize) -> u64 {
    if n <= 6 {
        1
    } else {
        1u64 << (n - 6)
    }
}

/// The `p`-th exhaustive batch for `n` input bits. Lane `l` of batch `p` is assignment
/// number `p*64 + l`, bit `k` of the assignment number is the value of input `k`.
/// For n < 6 only the first 2^n lanes are distinct (the rest repeat).
pub fn exhaustive_batch(n: usize, p: u64) -> Vec<u64> {
    (0..n)
        .map(|k| {
            if k < 6 {
                STD[k]
            } else if (p >> (k - 6)) & 1 == 1 {
                !0
            } else {
                0
            }
        })
        .collect()
}

/// Evaluate an SSA circuit on 64 lanes. `inputs` holds one word per input bit (all parties
/// flattened in order). Returns one word per output, or an error describing the first read of a
/// wire that does not exist or is not yet defined.
pub fn eval_ssa(c: &Circuit, inputs: &[u64]) -> Result<Vec<u64>, String> {
    let n_in: usize = c.input_gates.iter().sum();
    if inputs.len() != n_in {
        return Err(format!("harness: {} input words for {} input bits", inputs.len(), n_in));
    }
    let mut w: Vec<u64> = Vec::with_capacity(n_in + c.gates.len());
    w.extend_from_slice(inputs);
    for (gi, g) in c.gates.iter().enumerate() {
        let cur = n_in + gi;
        let rd = |i: usize, w: &Vec<u64>| -> Result<u64, String> {
            if i < w.len() {
                Ok(w[i])
            } else {
                Err(format!("gate at wire {cur} reads wire {i} which is not defined yet / does not exist"))
            }
        };
        let v = match g {
            Gate::Xor(x, y) => rd(*x, &w)? ^ rd(*y, &w)?,
            Gate::And(x, y) => rd(*x, &w)? & rd(*y, &w)?,
            Gate::Not(x) => !rd(*x, &w)?,
        };
        w.push(v);
    }
    let mut out = Vec::with_capacity(c.output_gates.len());
    for &o in &c.output_gates {
        if o >= w.len() {
            return Err(format!("output refers to wire {o} which does not exist"));
        }
        out.push(w[o]);
    }
    Ok(out)
}

/// All wire values (for builder-trace checking).
pub fn eval_ssa_all_wires(c: &Circuit, inputs: &[u64]) -> Result<Vec<u64>, String> {
    let n_in: usize = c.input_gates.iter().sum();
    let mut w: Vec<u64> = Vec::with_capacity(n_in + c.gates.len());
    w.extend_from_slice(inputs);
    for g in c.gates.iter() {
        let v = match g {
            Gate::Xor(x, y) => w.get(*x).ok_or("undef")? ^ w.get(*y).ok_or("undef")?,
            Gate::And(x, y) => w.get(*x).ok_or("undef")? & w.get(*y).ok_or("undef")?,
            Gate::Not(x) => !w.get(*x).ok_or("undef")?,
        };
        w.push(v);
    }
    Ok(w)
}

#[derive(Default, Debug, Clone)]
pub struct RegStats {
    pub reads: u64,
    pub writes: u64,
    pub overwrites: u64,
    pub max_reg_used: u32,
}

/// Evaluate a register circuit on 64 lanes with a shadow "written" bit per register.
pub fn eval_reg(c: &rc::Circuit, inputs: &[u64], stats: &mut RegStats) -> Result<Vec<u64>, String> {
    let n_in: usize = c.input_regs.iter().sum();
    if inputs.len() != n_in {
        return Err(format!("harness: {} input words for {} input bits", inputs.len(), n_in));
    }
    // party offsets
    let mut offs = Vec::with_capacity(c.input_regs.len());
    let mut acc = 0usize;
    for p in &c.input_regs {
        offs.push(acc);
        acc += p;
    }
    let mut regs = vec![0u64; c.max_reg_count];
    let mut written = vec![false; c.max_reg_count];
    for (i, inst) in c.insts.iter().enumerate() {
        let rd = |r: rc::Reg, stats: &mut RegStats| -> Result<u64, String> {
            let k = r.0 as usize;
            if k >= regs.len() {
                return Err(format!("inst {i} reads register {k} >= max_reg_count {}", regs.len()));
            }
            if !written[k] {
                return Err(format!("inst {i} reads register {k} before it was written"));
            }
            stats.reads += 1;
            Ok(regs[k])
        };
        let v = match inst.op {
            rc::Op::Xor(rc::Xor(a, b)) => rd(a, stats)? ^ rd(b, stats)?,
            rc::Op::And(rc::And(a, b)) => rd(a, stats)? & rd(b, stats)?,
            rc::Op::Not(rc::Not(a)) => !rd(a, stats)?,
            rc::Op::Input(rc::Input { party, input }) => {
                let p = party as usize;
                if p >= c.input_regs.len() {
                    return Err(format!("inst {i} loads from party {p} which does not exist"));
                }
                if input as usize >= c.input_regs[p] {
                    return Err(format!(
                        "inst {i} loads input {input} of party {p} which has only {} bits",
                        c.input_regs[p]
                    ));
                }
                inputs[offs[p] + input as usize]
            }
        };
        let o = inst.out.0 as usize;
        if o >= regs.len() {
            return Err(format!("inst {i} writes register {o} >= max_reg_count {}", regs.len()));
        }
        if written[o] {
            stats.overwrites += 1;
        }
        stats.writes += 1;
        stats.max_reg_used = stats.max_reg_used.max(inst.out.0);
        regs[o] = v;
        written[o] = true;
    }
    let mut out = Vec::with_capacity(c.output_regs.len());
    for r in &c.output_regs {
        let k = r.0 as usize;
        if k >= regs.len() {
            return Err(format!("output register {k} >= max_reg_count {}", regs.len()));
        }
        if !written[k] {
            return Err(format!("output register {k} was never written"));
        }
        out.push(regs[k]);
    }
    Ok(out)
}

// ---------------------------------------------------------------------------------------------
// Bristol fashion (written from the format description, independent of garble's convert.rs)

#[derive(Debug, Clone)]
pub struct Bristol {
    pub n_gates: usize,
    pub n_wires: usize,
    pub inputs: Vec<usize>,
    pub outputs: Vec<usize>,
    /// (kind, inputs, output)
    pub gates: Vec<(BKind, Vec<usize>, usize)>,
}

#[derive(Debug, Clone, Copy, PartialEq, Eq)]
pub enum BKind {
    Xor,
    And,
    Inv,
}

fn nums(line: &str) -> Result<Vec<usize>, String> {
    line.split_whitespace()
        .map(|t| t.parse::<usize>().map_err(|e| format!("bad number '{t}': {e}")))
        .collect()
}

impl Bristol {
    pub fn parse(text: &str) -> Result<Bristol, String> {
        let mut lines = text.lines();
        let l1 = nums(lines.next().ok_or("missing line 1")?)?;
        if l1.len() != 2 {
            return Err("line 1 must hold 2 numbers".into());
        }
        let l2 = nums(lines.next().ok_or("missing line 2")?)?;
        if l2.is_empty() || l2.len() != 1 + l2[0] {
            return Err("line 2: number of input values does not match".into());
        }
        let l3 = nums(lines.next().ok_or("missing line 3")?)?;
        if l3.is_empty() || l3.len() != 1 + l3[0] {
            return Err("line 3: number of output values does not match".into());
        }
        let mut gates = vec![];
        for l in lines {
            let toks: Vec<&str> = l.split_whitespace().collect();
            if toks.is_empty() {
                continue;
            }
            if toks.len() < 4 {
                return Err(format!("short gate line '{l}'"));
            }
            let nin: usize = toks[0].parse().map_err(|_| format!("bad gate line '{l}'"))?;
            let nout: usize = toks[1].parse().map_err(|_| format!("bad gate line '{l}'"))?;
            if nout != 1 || toks.len() != nin + 4 {
                return Err(format!("bad arity in gate line '{l}'"));
            }
            let ins: Vec<usize> = toks[2..2 + nin]
                .iter()
                .map(|t| t.parse::<usize>().map_err(|_| format!("bad wire in '{l}'")))
                .collect::<Result<_, _>>()?;
            let out: usize = toks[2 + nin].parse().map_err(|_| format!("bad wire in '{l}'"))?;
            let kind = match (toks[3 + nin], nin) {
                ("XOR", 2) => BKind::Xor,
                ("AND", 2) => BKind::And,
                ("INV", 1) => BKind::Inv,
                (k, _) => return Err(format!("unknown gate / arity {k}/{nin}")),
            };
            gates.push((kind, ins, out));
        }
        Ok(Bristol {
            n_gates: l1[0],
            n_wires: l1[1],
            inputs: l2[1..].to_vec(),
            outputs: l3[1..].to_vec(),
            gates,
        })
    }

    /// Well-formedness: counts, single assignment, definition before use, outputs are the last
    /// wires (each assigned by a gate).
    pub fn check_well_formed(&self) -> Result<(), String> {
        if self.n_gates != self.gates.len() {
            return Err(format!("declares {} gates but has {}", self.n_gates, self.gates.len()));
        }
        let n_in: usize = self.inputs.iter().sum();
        let n_out: usize = self.outputs.iter().sum();
        if self.n_wires != n_in + self.gates.len() {
            return Err(format!(
                "declares {} wires but has {} inputs + {} gates",
                self.n_wires,
                n_in,
                self.gates.len()
            ));
        }
        if n_out > self.n_wires {
            return Err("more outputs than wires".into());
        }
        let mut defined = vec![false; self.n_wires];
        for d in defined.iter_mut().take(n_in) {
            *d = true;
        }
        for (gi, (_, ins, out)) in self.gates.iter().enumerate() {
            for i in ins {
                if *i >= self.n_wires {
                    return Err(format!("gate {gi} reads wire {i} out of range"));
                }
                if !defined[*i] {
                    return Err(format!("gate {gi} reads wire {i} before it is assigned"));
                }
            }
            if *out >= self.n_wires {
                return Err(format!("gate {gi} writes wire {out} out of range"));
            }
            if defined[*out] {
                return Err(format!("gate {gi} assigns wire {out} a second time (or an input)"));
            }
            defined[*out] = true;
        }
        for w in (self.n_wires - n_out)..self.n_wires {
            if !defined[w] {
                return Err(format!("output wire {w} is never assigned"));
            }
            if w < n_in {
                return Err(format!("output wire {w} is an input wire"));
            }
        }
        Ok(())
    }

    /// Evaluate on 64 lanes; outputs are the last sum(outputs) wires in order.
    pub fn eval(&self, inputs: &[u64]) -> Result<Vec<u64>, String> {
        let n_in: usize = self.inputs.iter().sum();
        let n_out: usize = self.outputs.iter().sum();
        if inputs.len() != n_in {
            return Err("harness: wrong number of input words".into());
        }
        let mut w = vec![0u64; self.n_wires];
        let mut defined = vec![false; self.n_wires];
        for i in 0..n_in {
            w[i] = inputs[i];
            defined[i] = true;
        }
        for (gi, (k, ins, out)) in self.gates.iter().enumerate() {
            for i in ins {
                if *i >= self.n_wires || !defined[*i] {
                    return Err(format!("gate {gi} reads undefined wire {i}"));
                }
            }
            let v = match k {
                BKind::Xor => w[ins[0]] ^ w[ins[1]],
                BKind::And => w[ins[0]] & w[ins[1]],
                BKind::Inv => !w[ins[0]],
            };
            if *out >= self.n_wires {
                return Err(format!("gate {gi} writes wire {out} out of range"));
            }
            w[*out] = v;
            defined[*out] = true;
        }
        Ok(w[self.n_wires - n_out..].to_vec())
    }
}

/// Transpose helper: build input words from up to 64 concrete assignments (each a bit vector).
pub fn pack_lanes(assignments: &[Vec<bool>]) -> Vec<u64> {
    assert!(!assignments.is_empty() && assignments.len() <= 64);
    let n = assignments[0].len();
    let mut words = vec![0u64; n];
    for (l, a) in assignments.iter().enumerate() {
        debug_assert_eq!(a.len(), n);
        for (k, b) in a.iter().enumerate() {
            if *b {
                words[k] |= 1u64 << l;
            }
        }
    }
    words
}

/// Extract lane `l` of a list of words as bits.
pub fn lane(words: &[u64], l: usize) -> Vec<bool> {
    words.iter().map(|w| (w >> l) & 1 == 1).collect()
}
