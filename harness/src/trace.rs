//! Offline checker of the builder event log (hooks H2/H4/H5).
//!
//! Ground truth is the builder's own raw gate list: every raw gate is a literal XOR / AND of two
//! earlier wires. Every recorded request `(kind, x, y) -> ret` must satisfy
//! `f(ret) == f(x) kind f(y)` on all evaluated lanes, where `f(w)` is the function of wire `w`
//! computed from the raw gates; the built circuit must compute `f` of the requested outputs.

use crate::bits;
use crate::util::Counts;
use garble_lang::circuit::Circuit;
use garble_lang::verif_hooks::{Event, ReqKind, Snapshot};

/// Wire functions in builder numbering: 0 = false, 1 = true, 2.. = inputs, shift.. = gates.
pub fn real_wires(shift: usize, gates: &[(bool, usize, usize)], inputs: &[u64]) -> Result<Vec<u64>, String> {
    if shift != inputs.len() + 2 {
        return Err(format!("harness: shift {shift} but {} inputs", inputs.len()));
    }
    let mut w = Vec::with_capacity(shift + gates.len());
    w.push(0u64);
    w.push(!0u64);
    w.extend_from_slice(inputs);
    for (gi, (is_and, x, y)) in gates.iter().enumerate() {
        let cur = shift + gi;
        if *x >= cur || *y >= cur {
            return Err(format!("raw builder gate {cur} refers to a wire that is not earlier ({x}, {y})"));
        }
        let v = if *is_and { w[*x] & w[*y] } else { w[*x] ^ w[*y] };
        w.push(v);
    }
    Ok(w)
}

#[derive(Default, Clone, Debug)]
pub struct TraceStats {
    pub req_events: u64,
    pub panic_events: u64,
    pub outcomes: Counts,
}

fn wire_class(w: usize, shift: usize, gates: &[(bool, usize, usize)]) -> &'static str {
    if w <= 1 {
        "const"
    } else if w < shift {
        "input"
    } else if w - shift < gates.len() {
        if gates[w - shift].0 {
            "and"
        } else if gates[w - shift].1 == 1 || gates[w - shift].2 == 1 {
            "not"
        } else {
            "xor"
        }
    } else {
        "dangling"
    }
}

/// Check all events against the wire functions `real` (valid lanes given by `mask`).
/// Returns a description of the first offending event.
pub fn check_events(
    events: &[Event],
    shift: usize,
    gates: &[(bool, usize, usize)],
    real: &[u64],
    mask: u64,
    stats: &mut TraceStats,
) -> Result<(), String> {
    for (ei, ev) in events.iter().enumerate() {
        match ev {
            Event::Req { kind, x, y, ret, depth, gates_before, gates_after } => {
                stats.req_events += 1;
                if *x >= real.len() || *y >= real.len() || *ret >= real.len() {
                    return Err(format!(
                        "event {ei}: request {kind:?}({x}, {y}) -> {ret} refers to a wire that does not exist ({} wires)",
                        real.len()
                    ));
                }
                let want = match kind {
                    ReqKind::Xor => real[*x] ^ real[*y],
                    ReqKind::And => real[*x] & real[*y],
                };
                if (want ^ real[*ret]) & mask != 0 {
                    return Err(format!(
                        "event {ei} (depth {depth}): {kind:?}({x}:{}, {y}:{}) returned wire {ret}:{} whose function {:#018x} differs from the literal result {:#018x} (lanes mask {:#x})",
                        wire_class(*x, shift, gates),
                        wire_class(*y, shift, gates),
                        wire_class(*ret, shift, gates),
                        real[*ret] & mask,
                        want & mask,
                        mask
                    ));
                }
                if *depth == 0 || true {
                    let k = match kind {
                        ReqKind::Xor => "xor",
                        ReqKind::And => "and",
                    };
                    let new = gates_after - gates_before;
                    let outcome = if new == 0 {
                        if *ret <= 1 {
                            "folded-to-const"
                        } else if ret == x || ret == y {
                            "returned-operand"
                        } else {
                            "reused-existing-wire"
                        }
                    } else if new == 1 && *ret == shift + gates_after - 1 {
                        "new-gate"
                    } else {
                        "rewritten"
                    };
                    stats.outcomes.inc(&format!(
                        "{k}({},{})->{outcome}",
                        wire_class(*x, shift, gates),
                        wire_class(*y, shift, gates)
                    ));
                }
            }
            Event::PanicIf { cond, reason, meta, before, after } => {
                stats.panic_events += 1;
                if before.len() != 161 || after.len() != 161 {
                    return Err(format!("event {ei}: panic record does not have 161 wires"));
                }
                for w in before.iter().chain(after.iter()).chain(std::iter::once(cond)) {
                    if *w >= real.len() {
                        return Err(format!("event {ei}: push_panic_if refers to wire {w} that does not exist"));
                    }
                }
                // literal meaning: has' = has | cond; where has: record unchanged; where !has & cond:
                // record = (reason, meta); where neither: record is unobservable (don't care)
                let has = real[before[0]];
                let c = real[*cond];
                if ((has | c) ^ real[after[0]]) & mask != 0 {
                    return Err(format!(
                        "event {ei}: push_panic_if(cond={cond}, reason={reason}, {meta:?}): has_panicked after is {:#018x}, expected before|cond = {:#018x}",
                        real[after[0]] & mask,
                        (has | c) & mask
                    ));
                }
                let fields: [u32; 5] = [
                    *reason,
                    meta.start.0 as u32,
                    meta.start.1 as u32,
                    meta.end.0 as u32,
                    meta.end.1 as u32,
                ];
                for f in 0..5 {
                    for b in 0..32 {
                        let idx = 1 + f * 32 + b;
                        let newbit = if (fields[f] >> (31 - b)) & 1 == 1 { !0u64 } else { 0 };
                        let bef = real[before[idx]];
                        let aft = real[after[idx]];
                        // lanes that had panicked keep their record
                        if (bef ^ aft) & has & mask != 0 {
                            return Err(format!(
                                "event {ei}: push_panic_if(cond={cond}, reason={reason}, {meta:?}) changed bit {idx} of the record of an execution that had already panicked"
                            ));
                        }
                        // lanes that panic now get the new record
                        if (newbit ^ aft) & !has & c & mask != 0 {
                            return Err(format!(
                                "event {ei}: push_panic_if(cond={cond}, reason={reason}, {meta:?}) did not store bit {idx} of its record for an execution that panics here first"
                            ));
                        }
                    }
                }
            }
        }
    }
    Ok(())
}

/// Check a snapshot (taken at `build`) plus the built circuit on the given input lanes.
pub fn check_snapshot(
    snap: &Snapshot,
    built: &Circuit,
    inputs: &[u64],
    mask: u64,
    stats: &mut TraceStats,
    check_panic_events: bool,
) -> Result<(), String> {
    let real = real_wires(snap.shift, &snap.gates, inputs)?;
    let evs: Vec<Event>;
    let events: &[Event] = if check_panic_events {
        &snap.events
    } else {
        evs = snap.events.iter().filter(|e| matches!(e, Event::Req { .. })).cloned().collect();
        &evs
    };
    check_events(events, snap.shift, &snap.gates, &real, mask, stats)?;
    // final circuit == un-pruned builder on the requested outputs
    let out = bits::eval_ssa(built, inputs).map_err(|e| format!("built circuit: {e}"))?;
    let wanted: Vec<usize> = snap.panic_wires.iter().chain(snap.outputs.iter()).copied().collect();
    if out.len() != wanted.len() {
        return Err(format!("built circuit has {} outputs, builder was asked for {}", out.len(), wanted.len()));
    }
    for (k, w) in wanted.iter().enumerate() {
        if *w >= real.len() {
            return Err(format!("requested output {k} is wire {w} which does not exist"));
        }
        if (out[k] ^ real[*w]) & mask != 0 {
            return Err(format!(
                "output {k} of the built circuit computes {:#018x}, the builder wire {w} it was requested for computes {:#018x}",
                out[k] & mask,
                real[*w] & mask
            ));
        }
    }
    Ok(())
}
