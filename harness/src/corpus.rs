//! Corpus of real Garble programs taken from the working tree of /repo at run time:
//! garble_examples/*.garble.rs, fenced code blocks in garble_docs, string literals in tests/*.rs.

use std::collections::BTreeSet;
use std::path::Path;

/// Working tree the corpus is read from (default /repo; env override for background snapshot runs).
pub fn repo() -> std::path::PathBuf {
    std::path::PathBuf::from(std::env::var("VERIF_REPO").unwrap_or_else(|_| "/repo".to_string()))
}

fn walk(dir: &Path, out: &mut Vec<std::path::PathBuf>) {
    let Ok(rd) = std::fs::read_dir(dir) else { return };
    let mut entries: Vec<_> = rd.flatten().map(|e| e.path()).collect();
    entries.sort();
    for p in entries {
        if p.is_dir() {
            walk(&p, out);
        } else {
            out.push(p);
        }
    }
}

fn string_literals(src: &str) -> Vec<String> {
    // plain "..." literals with escapes, and r"..." / r#"..."# raw strings
    let b: Vec<char> = src.chars().collect();
    let mut out = vec![];
    let mut i = 0;
    while i < b.len() {
        let c = b[i];
        if c == '/' && i + 1 < b.len() && b[i + 1] == '/' {
            while i < b.len() && b[i] != '\n' {
                i += 1;
            }
            continue;
        }
        if c == 'r' && i + 1 < b.len() && (b[i + 1] == '"' || b[i + 1] == '#') {
            let mut j = i + 1;
            let mut hashes = 0;
            while j < b.len() && b[j] == '#' {
                hashes += 1;
                j += 1;
            }
            if j < b.len() && b[j] == '"' {
                j += 1;
                let start = j;
                'outer: while j < b.len() {
                    if b[j] == '"' {
                        let mut k = 0;
                        while k < hashes && j + 1 + k < b.len() && b[j + 1 + k] == '#' {
                            k += 1;
                        }
                        if k == hashes {
                            out.push(b[start..j].iter().collect());
                            j += 1 + hashes;
                            break 'outer;
                        }
                    }
                    j += 1;
                }
                i = j;
                continue;
            }
        }
        if c == '\'' {
            // char literal or lifetime: skip conservatively
            if i + 2 < b.len() && b[i + 2] == '\'' {
                i += 3;
                continue;
            }
            if i + 3 < b.len() && b[i + 1] == '\\' && b[i + 3] == '\'' {
                i += 4;
                continue;
            }
            i += 1;
            continue;
        }
        if c == '"' {
            let mut j = i + 1;
            let mut s = String::new();
            while j < b.len() && b[j] != '"' {
                if b[j] == '\\' && j + 1 < b.len() {
                    match b[j + 1] {
                        'n' => s.push('\n'),
                        't' => s.push('\t'),
                        'r' => s.push('\r'),
                        '\\' => s.push('\\'),
                        '"' => s.push('"'),
                        '\n' => {
                            // line continuation: skip following whitespace
                            j += 2;
                            while j < b.len() && b[j].is_whitespace() {
                                j += 1;
                            }
                            continue;
                        }
                        other => {
                            s.push('\\');
                            s.push(other);
                        }
                    }
                    j += 2;
                } else {
                    s.push(b[j]);
                    j += 1;
                }
            }
            out.push(s);
            i = j + 1;
            continue;
        }
        i += 1;
    }
    out
}

fn fenced_blocks(md: &str) -> Vec<String> {
    let mut out = vec![];
    let mut cur: Option<String> = None;
    for line in md.lines() {
        if line.trim_start().starts_with("```") {
            match cur.take() {
                Some(block) => out.push(block),
                None => cur = Some(String::new()),
            }
        } else if let Some(c) = cur.as_mut() {
            c.push_str(line);
            c.push('\n');
        }
    }
    out
}

/// All candidate program texts (deduplicated, deterministic order). Not all of them are valid
/// programs (error examples, snippets) – that is intended for C07; callers that need valid ones
/// filter by compiling.
pub fn load() -> Vec<(String, String)> {
    let mut seen = BTreeSet::new();
    let mut out = vec![];
    let mut push = |origin: String, text: String, out: &mut Vec<(String, String)>| {
        if text.len() < 8 || text.len() > 20_000 {
            return;
        }
        if seen.insert(text.clone()) {
            out.push((origin, text));
        }
    };
    let mut files = vec![];
    walk(&repo().join("garble_examples"), &mut files);
    for f in &files {
        if f.extension().map(|e| e == "rs").unwrap_or(false) {
            if let Ok(t) = std::fs::read_to_string(f) {
                push(f.display().to_string(), t, &mut out);
            }
        }
    }
    let mut files = vec![];
    walk(&repo().join("garble_docs"), &mut files);
    files.push(repo().join("README.md"));
    for f in &files {
        if f.extension().map(|e| e == "md").unwrap_or(false) {
            if let Ok(t) = std::fs::read_to_string(f) {
                for (i, b) in fenced_blocks(&t).into_iter().enumerate() {
                    if b.contains("fn ") {
                        push(format!("{}#block{}", f.display(), i), b, &mut out);
                    }
                }
            }
        }
    }
    let mut files = vec![];
    walk(&repo().join("tests"), &mut files);
    walk(&repo().join("src"), &mut files);
    for f in &files {
        if f.extension().map(|e| e == "rs").unwrap_or(false) {
            if let Ok(t) = std::fs::read_to_string(f) {
                for (i, s) in string_literals(&t).into_iter().enumerate() {
                    if s.contains("fn ") && s.contains('{') {
                        push(format!("{}#str{}", f.display(), i), s, &mut out);
                    }
                }
            }
        }
    }
    out
}
