//! Reference integer semantics: Rust's checked fixed-width arithmetic, computed on i128.

#[derive(Clone, Copy, PartialEq, Eq, Hash, Debug, PartialOrd, Ord)]
pub struct IntTy {
    pub signed: bool,
    pub bits: u8,
    pub is_usize: bool,
}

pub const U8: IntTy = IntTy { signed: false, bits: 8, is_usize: false };
pub const U16: IntTy = IntTy { signed: false, bits: 16, is_usize: false };
pub const U32: IntTy = IntTy { signed: false, bits: 32, is_usize: false };
pub const U64: IntTy = IntTy { signed: false, bits: 64, is_usize: false };
pub const USIZE: IntTy = IntTy { signed: false, bits: 32, is_usize: true };
pub const I8: IntTy = IntTy { signed: true, bits: 8, is_usize: false };
pub const I16: IntTy = IntTy { signed: true, bits: 16, is_usize: false };
pub const I32: IntTy = IntTy { signed: true, bits: 32, is_usize: false };
pub const I64: IntTy = IntTy { signed: true, bits: 64, is_usize: false };
pub const ALL_INTS: [IntTy; 9] = [U8, U16, U32, U64, USIZE, I8, I16, I32, I64];

#[derive(Clone, Copy, PartialEq, Eq, Hash, Debug, PartialOrd, Ord)]
pub enum Reason {
    Overflow = 1,
    DivByZero = 2,
    OutOfBounds = 3,
}

impl Reason {
    pub fn code(self) -> u32 {
        self as u32
    }
    pub fn name(self) -> &'static str {
        match self {
            Reason::Overflow => "Overflow",
            Reason::DivByZero => "DivByZero",
            Reason::OutOfBounds => "OutOfBounds",
        }
    }
}

impl IntTy {
    pub fn name(self) -> &'static str {
        match (self.signed, self.bits, self.is_usize) {
            (false, _, true) => "usize",
            (false, 8, _) => "u8",
            (false, 16, _) => "u16",
            (false, 32, _) => "u32",
            (false, 64, _) => "u64",
            (true, 8, _) => "i8",
            (true, 16, _) => "i16",
            (true, 32, _) => "i32",
            (true, 64, _) => "i64",
            _ => unreachable!(),
        }
    }
    pub fn min_val(self) -> i128 {
        if self.signed {
            -(1i128 << (self.bits - 1))
        } else {
            0
        }
    }
    pub fn max_val(self) -> i128 {
        if self.signed {
            (1i128 << (self.bits - 1)) - 1
        } else {
            (1i128 << self.bits) - 1
        }
    }
    pub fn fits(self, v: i128) -> bool {
        v >= self.min_val() && v <= self.max_val()
    }
    /// Two's complement wrap of an arbitrary integer into this type.
    pub fn wrap(self, v: i128) -> i128 {
        let m = 1i128 << self.bits;
        let r = v.rem_euclid(m);
        if self.signed && r >= m / 2 {
            r - m
        } else {
            r
        }
    }
    /// Interpret the low `bits` bits of `raw`.
    pub fn from_raw(self, raw: u64) -> i128 {
        let masked = if self.bits == 64 { raw } else { raw & ((1u64 << self.bits) - 1) };
        self.wrap(masked as i128)
    }
    /// Bit pattern (low `bits` bits) of a value of this type.
    pub fn to_raw(self, v: i128) -> u64 {
        debug_assert!(self.fits(v), "{v} does not fit {self:?}");
        let m = 1i128 << self.bits;
        (v.rem_euclid(m)) as u64
    }
    /// Literal text with suffix.
    pub fn lit(self, v: i128) -> String {
        format!("{}{}", v, self.name())
    }
}

#[derive(Clone, Copy, PartialEq, Eq, Hash, Debug)]
pub enum BinOp {
    Add,
    Sub,
    Mul,
    Div,
    Rem,
    BitAnd,
    BitOr,
    BitXor,
    Shl,
    Shr,
    Lt,
    Gt,
    Le,
    Ge,
    Eq,
    Ne,
    AndAnd,
    OrOr,
}

impl BinOp {
    pub fn sym(self) -> &'static str {
        match self {
            BinOp::Add => "+",
            BinOp::Sub => "-",
            BinOp::Mul => "*",
            BinOp::Div => "/",
            BinOp::Rem => "%",
            BinOp::BitAnd => "&",
            BinOp::BitOr => "|",
            BinOp::BitXor => "^",
            BinOp::Shl => "<<",
            BinOp::Shr => ">>",
            BinOp::Lt => "<",
            BinOp::Gt => ">",
            BinOp::Le => "<=",
            BinOp::Ge => ">=",
            BinOp::Eq => "==",
            BinOp::Ne => "!=",
            BinOp::AndAnd => "&&",
            BinOp::OrOr => "||",
        }
    }
    pub fn is_cmp(self) -> bool {
        matches!(self, BinOp::Lt | BinOp::Gt | BinOp::Le | BinOp::Ge | BinOp::Eq | BinOp::Ne)
    }
    pub fn is_shift(self) -> bool {
        matches!(self, BinOp::Shl | BinOp::Shr)
    }
    pub fn can_panic(self) -> bool {
        matches!(
            self,
            BinOp::Add | BinOp::Sub | BinOp::Mul | BinOp::Div | BinOp::Rem | BinOp::Shl | BinOp::Shr
        )
    }
    pub const ARITH: [BinOp; 16] = [
        BinOp::Add,
        BinOp::Sub,
        BinOp::Mul,
        BinOp::Div,
        BinOp::Rem,
        BinOp::BitAnd,
        BinOp::BitOr,
        BinOp::BitXor,
        BinOp::Shl,
        BinOp::Shr,
        BinOp::Lt,
        BinOp::Gt,
        BinOp::Le,
        BinOp::Ge,
        BinOp::Eq,
        BinOp::Ne,
    ];
}

/// Result of an integer operation under the reference semantics.
#[derive(Clone, Copy, PartialEq, Eq, Debug)]
pub enum Arith {
    /// integer result (for comparisons: 0 / 1)
    Val(i128),
    Panic(Reason),
    /// `MIN % -1`: either the exact value or an Overflow panic is acceptable
    Either(i128, Reason),
}

/// `a op b` at type `ty` (for shifts `b` is the u8 amount, for comparisons the result is 0/1).
pub fn binop(op: BinOp, ty: IntTy, a: i128, b: i128) -> Arith {
    use Arith::*;
    let chk = |v: Option<i128>| match v {
        Some(v) if ty.fits(v) => Val(v),
        _ => Panic(Reason::Overflow),
    };
    match op {
        BinOp::Add => chk(a.checked_add(b)),
        BinOp::Sub => chk(a.checked_sub(b)),
        BinOp::Mul => chk(a.checked_mul(b)),
        BinOp::Div => {
            if b == 0 {
                Panic(Reason::DivByZero)
            } else {
                chk(a.checked_div(b))
            }
        }
        BinOp::Rem => {
            if b == 0 {
                Panic(Reason::DivByZero)
            } else if ty.signed && a == ty.min_val() && b == -1 {
                Either(0, Reason::Overflow)
            } else {
                chk(a.checked_rem(b))
            }
        }
        BinOp::BitAnd => Val(ty.from_raw(ty.to_raw(a) & ty.to_raw(b))),
        BinOp::BitOr => Val(ty.from_raw(ty.to_raw(a) | ty.to_raw(b))),
        BinOp::BitXor => Val(ty.from_raw(ty.to_raw(a) ^ ty.to_raw(b))),
        BinOp::Shl => {
            if b >= ty.bits as i128 {
                Panic(Reason::Overflow)
            } else {
                Val(ty.wrap(a << (b as u32)))
            }
        }
        BinOp::Shr => {
            if b >= ty.bits as i128 {
                Panic(Reason::Overflow)
            } else {
                // arithmetic for signed (i128 >> is arithmetic), logical for unsigned (a >= 0)
                Val(a >> (b as u32))
            }
        }
        BinOp::Lt => Val((a < b) as i128),
        BinOp::Gt => Val((a > b) as i128),
        BinOp::Le => Val((a <= b) as i128),
        BinOp::Ge => Val((a >= b) as i128),
        BinOp::Eq => Val((a == b) as i128),
        BinOp::Ne => Val((a != b) as i128),
        BinOp::AndAnd | BinOp::OrOr => unreachable!("boolean operators are not integer operators"),
    }
}

pub fn neg(ty: IntTy, a: i128) -> Arith {
    let v = -a;
    if ty.fits(v) {
        Arith::Val(v)
    } else {
        Arith::Panic(Reason::Overflow)
    }
}

pub fn not(ty: IntTy, a: i128) -> i128 {
    ty.from_raw(!ty.to_raw(a))
}

/// Rust's `as` between integer types.
pub fn cast(_from: IntTy, to: IntTy, a: i128) -> i128 {
    to.wrap(a)
}

/// Boundary-directed sample of values of a type.
pub fn boundary_values(ty: IntTy) -> Vec<i128> {
    let mut v = vec![0, 1, 2, 3, ty.min_val(), ty.min_val() + 1, ty.max_val(), ty.max_val() - 1];
    if ty.signed {
        v.extend([-1, -2, -3]);
    }
    for k in 1..ty.bits as u32 {
        let p = 1i128 << k;
        for c in [p - 1, p, p + 1] {
            if ty.fits(c) {
                v.push(c);
            }
            if ty.signed && ty.fits(-c) {
                v.push(-c);
            }
        }
    }
    // floor(sqrt(max)) +- 1
    let s = ((ty.max_val() as f64).sqrt()) as i128;
    for c in [s - 1, s, s + 1] {
        if ty.fits(c) {
            v.push(c);
        }
        if ty.signed && ty.fits(-c) {
            v.push(-c);
        }
    }
    v.sort();
    v.dedup();
    v
}

pub fn random_value(rng: &mut crate::rng::Rng, ty: IntTy) -> i128 {
    // mix: uniform bits, small magnitudes, boundaries
    match rng.below(10) {
        0..=4 => ty.from_raw(rng.next_u64()),
        5..=6 => {
            let k = rng.below(ty.bits as u64) as u32;
            let m = if k == 0 { 0 } else { rng.next_u64() & ((1u64 << k) - 1) };
            let v = m as i128;
            if ty.signed && rng.bool() {
                ty.wrap(-v)
            } else {
                ty.wrap(v)
            }
        }
        _ => {
            let b = boundary_values(ty);
            *rng.pick(&b)
        }
    }
}

/// KF-C03-1: `v * c` with a negative *literal* constant `c`, |c| < bits, and v * |c| == 2^(bits-1):
/// garble panics with Overflow although the product MIN is representable.
pub fn kf_negconst_mul(ty: IntTy, c: i128, v: i128) -> bool {
    kf_negconst_mul_lit(ty, c, v, ty.bits as i128)
}

/// As above; `lit_bits` is the width of the literal's own suffix type (32 for a suffix-free literal):
/// the repeated-addition lowering is used for |c| < lit_bits.
pub fn kf_negconst_mul_lit(ty: IntTy, c: i128, v: i128, lit_bits: i128) -> bool {
    ty.signed && c < 0 && -c < lit_bits && v.checked_mul(-c) == Some(1i128 << (ty.bits - 1))
}
