//! Small deterministic PRNG (splitmix64 seeding + xoshiro256**), no dependencies.

#[derive(Clone, Debug)]
pub struct Rng {
    s: [u64; 4],
}

fn splitmix(x: &mut u64) -> u64 {
    *x = x.wrapping_add(0x9E37_79B9_7F4A_7C15);
    let mut z = *x;
    z = (z ^ (z >> 30)).wrapping_mul(0xBF58_476D_1CE4_E5B9);
    z = (z ^ (z >> 27)).wrapping_mul(0x94D0_49BB_1331_11EB);
    z ^ (z >> 31)
}

impl Rng {
    pub fn new(seed: u64) -> Self {
        let mut x = seed ^ 0xA076_1D64_78BD_642F;
        let s = [
            splitmix(&mut x),
            splitmix(&mut x),
            splitmix(&mut x),
            splitmix(&mut x),
        ];
        Rng { s }
    }

    /// Derive an independent stream (e.g. per worker / per case).
    pub fn derive(seed: u64, stream: u64) -> Self {
        Rng::new(seed.wrapping_mul(0x2545_F491_4F6C_DD1D) ^ stream.wrapping_mul(0x9E37_79B9_7F4A_7C15).rotate_left(17))
    }

    pub fn next_u64(&mut self) -> u64 {
        let result = self.s[1].wrapping_mul(5).rotate_left(7).wrapping_mul(9);
        let t = self.s[1] << 17;
        self.s[2] ^= self.s[0];
        self.s[3] ^= self.s[1];
        self.s[1] ^= self.s[2];
        self.s[0] ^= self.s[3];
        self.s[2] ^= t;
        self.s[3] = self.s[3].rotate_left(45);
        result
    }

    /// Uniform in 0..n (n > 0).
    pub fn below(&mut self, n: u64) -> u64 {
        debug_assert!(n > 0);
        // multiply-shift; bias is irrelevant here
        ((self.next_u64() as u128 * n as u128) >> 64) as u64
    }

    pub fn usize_below(&mut self, n: usize) -> usize {
        self.below(n as u64) as usize
    }

    /// Uniform in lo..=hi.
    pub fn range(&mut self, lo: i64, hi: i64) -> i64 {
        debug_assert!(lo <= hi);
        let span = (hi as i128 - lo as i128 + 1) as u128;
        let r = (self.next_u64() as u128 * span) >> 64;
        (lo as i128 + r as i128) as i64
    }

    /// True with probability num/den.
    pub fn chance(&mut self, num: u64, den: u64) -> bool {
        self.below(den) < num
    }

    pub fn bool(&mut self) -> bool {
        self.next_u64() & 1 == 1
    }

    pub fn pick<'a, T>(&mut self, xs: &'a [T]) -> &'a T {
        &xs[self.usize_below(xs.len())]
    }

    pub fn shuffle<T>(&mut self, xs: &mut [T]) {
        for i in (1..xs.len()).rev() {
            let j = self.usize_below(i + 1);
            xs.swap(i, j);
        }
    }

    /// Pick an index according to integer weights.
    pub fn weighted(&mut self, weights: &[u32]) -> usize {
        let total: u64 = weights.iter().map(|w| *w as u64).sum();
        debug_assert!(total > 0);
        let mut r = self.below(total);
        for (i, w) in weights.iter().enumerate() {
            if r < *w as u64 {
                return i;
            }
            r -= *w as u64;
        }
        weights.len() - 1
    }
}
