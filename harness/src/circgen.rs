//! Generators of circuit values (well-formed SSA circuits, arbitrary SSA / register circuit
//! values, single-field mutations).

use crate::rng::Rng;
use garble_lang::circuit::{Circuit, Gate};
use garble_lang::register_circuit as rc;

/// A well-formed SSA circuit: every gate refers to earlier wires, outputs in range, >= 1 input bit.
pub fn well_formed_ssa(rng: &mut Rng, max_gates: usize) -> Circuit {
    let parties = 1 + rng.usize_below(3);
    let mut input_gates: Vec<usize> = (0..parties).map(|_| rng.usize_below(9)).collect();
    if input_gates.iter().sum::<usize>() == 0 {
        let k = rng.usize_below(parties);
        input_gates[k] = 1 + rng.usize_below(4);
    }
    let n_in: usize = input_gates.iter().sum();
    let n_gates = rng.usize_below(max_gates + 1);
    let mut gates = Vec::with_capacity(n_gates);
    for g in 0..n_gates {
        let cur = n_in + g;
        // mix of uniform and "recent" operands (long chains + wide fan-out)
        let pick = |rng: &mut Rng| -> usize {
            if rng.chance(1, 2) {
                rng.usize_below(cur)
            } else {
                cur - 1 - rng.usize_below(cur.min(6))
            }
        };
        let gate = match rng.below(7) {
            0..=2 => Gate::Xor(pick(rng), pick(rng)),
            3..=5 => Gate::And(pick(rng), pick(rng)),
            _ => Gate::Not(pick(rng)),
        };
        gates.push(gate);
    }
    let wires = n_in + n_gates;
    let n_out = 1 + rng.usize_below(10);
    let output_gates = (0..n_out)
        .map(|_| {
            if rng.chance(1, 2) {
                wires - 1 - rng.usize_below(wires.min(8))
            } else {
                rng.usize_below(wires)
            }
        })
        .collect();
    Circuit { input_gates, gates, output_gates }
}

fn wild_index(rng: &mut Rng, around: usize) -> usize {
    match rng.below(12) {
        0 => usize::MAX,
        1 => u32::MAX as usize,
        2 => around,
        3 => around + 1,
        4 => around.saturating_sub(1),
        5 => around + 1 + rng.usize_below(50),
        _ => rng.usize_below(around.max(1)),
    }
}

/// An arbitrary SSA circuit value (may or may not be valid). Sizes stay small so that inputs of
/// the declared shape can actually be supplied.
pub fn arbitrary_ssa(rng: &mut Rng) -> Circuit {
    let parties = rng.usize_below(4);
    let input_gates: Vec<usize> = (0..parties).map(|_| if rng.chance(1, 4) { 0 } else { rng.usize_below(6) }).collect();
    let n_in: usize = input_gates.iter().sum();
    let n_gates = rng.usize_below(12);
    let mut gates = vec![];
    for g in 0..n_gates {
        let cur = n_in + g;
        let mut idx = |rng: &mut Rng| if rng.chance(1, 6) { wild_index(rng, cur) } else { rng.usize_below(cur.max(1)) };
        gates.push(match rng.below(3) {
            0 => Gate::Xor(idx(rng), idx(rng)),
            1 => Gate::And(idx(rng), idx(rng)),
            _ => Gate::Not(idx(rng)),
        });
    }
    let wires = n_in + n_gates;
    let n_out = rng.usize_below(5);
    let output_gates = (0..n_out)
        .map(|_| if rng.chance(1, 5) { wild_index(rng, wires) } else { rng.usize_below(wires.max(1)) })
        .collect();
    Circuit { input_gates, gates, output_gates }
}

fn wild_reg(rng: &mut Rng, around: u32) -> rc::Reg {
    rc::Reg(match rng.below(10) {
        0 => u32::MAX,
        1 => around,
        2 => around + 1,
        3 => around.saturating_sub(1),
        4 => around + 1 + rng.below(40) as u32,
        _ => rng.below(around.max(1) as u64) as u32,
    })
}

/// An arbitrary register circuit value.
pub fn arbitrary_reg(rng: &mut Rng) -> rc::Circuit {
    let parties = rng.usize_below(4);
    let input_regs: Vec<usize> = (0..parties).map(|_| if rng.chance(1, 4) { 0 } else { rng.usize_below(5) }).collect();
    let total: usize = input_regs.iter().sum();
    let max_reg_count = match rng.below(8) {
        0 => 0,
        1 => 1,
        _ => total + rng.usize_below(8),
    };
    let mut insts = vec![];
    let honest_inputs = rng.chance(3, 4);
    if honest_inputs {
        let mut k = 0u32;
        for (p, n) in input_regs.iter().enumerate() {
            for i in 0..*n {
                insts.push(rc::Inst { out: rc::Reg(k), op: rc::Op::Input(rc::Input { party: p as u32, input: i as u32 }) });
                k += 1;
            }
        }
    }
    let n_more = rng.usize_below(12);
    let m = max_reg_count as u32;
    for _ in 0..n_more {
        let mut r = |rng: &mut Rng| if rng.chance(1, 6) { wild_reg(rng, m) } else { rc::Reg(rng.below(m.max(1) as u64) as u32) };
        let op = match rng.below(10) {
            0..=2 => rc::Op::Xor(rc::Xor(r(rng), r(rng))),
            3..=5 => rc::Op::And(rc::And(r(rng), r(rng))),
            6..=7 => rc::Op::Not(rc::Not(r(rng))),
            _ => rc::Op::Input(rc::Input {
                party: if rng.chance(1, 2) { rng.below(parties.max(1) as u64) as u32 } else { rng.below(6) as u32 },
                input: rng.below(7) as u32,
            }),
        };
        let out = if matches!(op, rc::Op::Input(_)) && rng.chance(2, 3) { rc::Reg(insts.len() as u32) } else { r(rng) };
        insts.push(rc::Inst { out, op });
    }
    let n_out = rng.usize_below(5);
    let output_regs = (0..n_out)
        .map(|_| if rng.chance(1, 5) { wild_reg(rng, m) } else { rc::Reg(rng.below(m.max(1) as u64) as u32) })
        .collect();
    rc::Circuit { input_regs, insts, max_reg_count, output_regs, and_ops: rng.usize_below(4) }
}

/// One single-field mutation of a valid SSA circuit (sits on the validity boundary).
pub fn mutate_ssa(rng: &mut Rng, c: &Circuit) -> Circuit {
    let mut m = c.clone();
    let n_in: usize = m.input_gates.iter().sum();
    match rng.below(6) {
        0 if !m.gates.is_empty() => {
            let g = rng.usize_below(m.gates.len());
            let cur = n_in + g;
            let v = match rng.below(4) {
                0 => cur,
                1 => cur + 1,
                2 => cur.saturating_sub(1),
                _ => wild_index(rng, cur),
            };
            m.gates[g] = match m.gates[g].clone() {
                Gate::Xor(a, b) => if rng.bool() { Gate::Xor(v, b) } else { Gate::Xor(a, v) },
                Gate::And(a, b) => if rng.bool() { Gate::And(v, b) } else { Gate::And(a, v) },
                Gate::Not(_) => Gate::Not(v),
            };
        }
        1 if !m.output_gates.is_empty() => {
            let o = rng.usize_below(m.output_gates.len());
            let wires = n_in + m.gates.len();
            m.output_gates[o] = match rng.below(3) {
                0 => wires,
                1 => wires.saturating_sub(1),
                _ => wild_index(rng, wires),
            };
        }
        2 if !m.input_gates.is_empty() => {
            let p = rng.usize_below(m.input_gates.len());
            m.input_gates[p] = match rng.below(3) {
                0 => 0,
                1 => m.input_gates[p] + 1,
                _ => m.input_gates[p].saturating_sub(1),
            };
        }
        3 => {
            m.output_gates.clear();
        }
        4 if !m.gates.is_empty() => {
            let g = rng.usize_below(m.gates.len());
            m.gates.remove(g);
        }
        _ => {
            m.input_gates.push(rng.usize_below(3));
        }
    }
    m
}

/// One single-field mutation of a valid register circuit.
pub fn mutate_reg(rng: &mut Rng, c: &rc::Circuit) -> rc::Circuit {
    let mut m = c.clone();
    let maxr = m.max_reg_count as u32;
    match rng.below(8) {
        0 if !m.insts.is_empty() => {
            let i = rng.usize_below(m.insts.len());
            let v = match rng.below(3) {
                0 => rc::Reg(maxr),
                1 => rc::Reg(maxr.saturating_sub(1)),
                _ => wild_reg(rng, maxr),
            };
            m.insts[i].op = match m.insts[i].op {
                rc::Op::Xor(rc::Xor(a, b)) => rc::Op::Xor(if rng.bool() { rc::Xor(v, b) } else { rc::Xor(a, v) }),
                rc::Op::And(rc::And(a, b)) => rc::Op::And(if rng.bool() { rc::And(v, b) } else { rc::And(a, v) }),
                rc::Op::Not(_) => rc::Op::Not(rc::Not(v)),
                rc::Op::Input(rc::Input { party, input }) => rc::Op::Input(match rng.below(4) {
                    0 => rc::Input { party: party + 1, input },
                    1 => rc::Input { party, input: input + 1 },
                    2 => rc::Input { party: m.input_regs.len() as u32, input },
                    _ => rc::Input { party, input: m.input_regs.get(party as usize).copied().unwrap_or(0) as u32 },
                }),
            };
        }
        1 if !m.insts.is_empty() => {
            let i = rng.usize_below(m.insts.len());
            m.insts[i].out = match rng.below(3) {
                0 => rc::Reg(maxr),
                1 => rc::Reg(maxr.saturating_sub(1)),
                _ => wild_reg(rng, maxr),
            };
        }
        2 => {
            m.max_reg_count = match rng.below(6) {
                0 => 0,
                1 => m.max_reg_count.saturating_sub(1),
                2 => m.max_reg_count + 1,
                // (absurd counts, as a deserialized circuit may declare them; only counts that no
                // allocation can be attempted for, so that the harness process survives)
                3 => usize::MAX - rng.usize_below(2),
                4 => (isize::MAX as usize) + 1 + rng.usize_below(1 << 20),
                _ => 1,
            };
        }
        3 if !m.output_regs.is_empty() => {
            let o = rng.usize_below(m.output_regs.len());
            m.output_regs[o] = match rng.below(3) {
                0 => rc::Reg(maxr),
                1 => rc::Reg(maxr.saturating_sub(1)),
                _ => wild_reg(rng, maxr),
            };
        }
        4 if !m.insts.is_empty() => {
            let i = rng.usize_below(m.insts.len());
            m.insts.remove(i);
        }
        5 if m.insts.len() >= 2 => {
            let i = rng.usize_below(m.insts.len() - 1);
            m.insts.swap(i, i + 1);
        }
        6 if !m.input_regs.is_empty() => {
            let p = rng.usize_below(m.input_regs.len());
            m.input_regs[p] = match rng.below(3) {
                0 => 0,
                1 => m.input_regs[p] + 1,
                _ => m.input_regs[p].saturating_sub(1),
            };
        }
        _ => {
            m.output_regs.clear();
        }
    }
    m
}
