#![allow(dead_code)]
//! gverif — runtime-monitoring harness for garble_lang (see /verif/DESIGN.md).
//!
//! usage: gverif <PROPERTY-ID> <quick|thorough>
//!        gverif <PROPERTY-ID> --replay <file>
//!        gverif worker <kind> ...      (internal: isolated subprocess workers)

mod bits;
mod circgen;
mod corpus;
mod trace;
mod gl;
mod ints;
mod model;
mod props;
mod rng;
mod util;

use util::{Ctx, Tier};

fn main() {
    let args: Vec<String> = std::env::args().collect();
    if args.len() < 3 {
        eprintln!("usage: gverif <ID> <quick|thorough> | gverif <ID> --replay <file>");
        std::process::exit(2);
    }
    util::install_panic_hook();
    let id = args[1].to_uppercase();
    if args[1] == "worker" {
        std::process::exit(props::worker_main(&args[2..]));
    }
    let seed: u64 = std::env::var("VERIF_SEED").ok().and_then(|s| s.parse().ok()).unwrap_or(1);
    if args[2] == "--replay" {
        let Some(path) = args.get(3) else {
            eprintln!("--replay needs a file");
            std::process::exit(2);
        };
        std::process::exit(props::replay(&id, path));
    }
    let tier = match args[2].as_str() {
        "quick" => Tier::Quick,
        "thorough" => Tier::Thorough,
        other => {
            eprintln!("unknown tier {other}");
            std::process::exit(2);
        }
    };
    // hard watchdog: 3x the largest budget; firing is inconclusive (exit 2), never a violation
    let hard = tier.pick(600u64, 3600u64);
    let id_for_watchdog = id.clone();
    std::thread::spawn(move || {
        std::thread::sleep(std::time::Duration::from_secs(hard));
        println!("INCONCLUSIVE property={id_for_watchdog} hard wall-clock watchdog ({hard}s) fired");
        std::process::exit(2);
    });
    let code = props::run(&id, tier, seed);
    std::process::exit(code);
}

#[allow(dead_code)]
fn _unused(_: &Ctx) {}
