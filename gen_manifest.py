#!/usr/bin/env python3
"""Regenerates MANIFEST.json from the table below (kept in one place so it stays valid)."""
import json, subprocess

CHECKS = {
 "C05": dict(
   technique="runtime monitor of the acceptance => valid circuit implication: every program the real checker accepts is compiled under catch_unwind, validated, shape-checked against sizes computed by the harness' own type model, evaluated and decoded",
   text="Exploration: generated fully annotated programs (must be accepted: converse clause), the same programs with literal suffixes / let annotations dropped at random (judged only when accepted), several pub fns per program, zero-sized types as parameters / returns / fields; plus foreign programs, enumerated: every corpus program, the C07 slot grid and every single-token deletion / duplication / adjacent swap of the corpus programs (about 190 000 texts) - whatever is accepted is judged in worker processes against the shape of its declared types, computed by the harness own size function over the type-checked program.",
   note="No semantic oracle for suffix-free programs. Generator mask for KF-C05-1 (un-annotated bindings of suffix-free literals) in force and printed in DESIGN.md; for foreign programs KF-C05-1 and KF-C05-3 are keyed on cause (a failure of a program whose type-checked form still holds a number literal of unspecified type / a join call on two empty arrays).",
   design="DESIGN.md section 2 / C05"),
 "C17": dict(
   technique="fault-injection monitor: rule-breaking edits (31 rules, AST- and token-level) of accepted programs and an enumerated family of 455 programs whose disagreement only shows through an un-annotated binding must all be rejected by the real type checker",
   text="Exploration: for every generated, accepted, fully annotated base program each applicable site (3 sampled per rule in the quick tier, all in thorough) of each rule - operand/argument/return/branch/arm/annotation type, non-bool condition, shift amount, index type, unknown identifier/field/variant/type, assignment to immutable bindings (plain, compound, through accessors), use after scope end, wrong argument / field / payload / tuple-pattern counts, refutable let / for patterns, direct and mutual recursion, unused private fn, pub fn without parameters (uncalled and called), declared return type changed to () or another type, cast of / match on unsupported types - plus pairs of different edits. Mutants are printed with every literal suffixed, so inference cannot rescue an operand of another type.",
   note="Each edit is built to violate a documented rule; mutants rejected already by the parser are counted separately.",
   design="DESIGN.md section 2 / C17"),
 "C09": dict(
   technique="round-trip monitor with an independent codec and a denotation function: every literal the API accepts (parsed text or programmatic value, incl. corrupted and alternative forms) must encode exactly as the value it denotes",
   text="Exploration: generated nested types (arrays/tuples/structs/enums over all primitive types), boundary-biased values; canonical text, alternative spellings (suffix-free numbers, trailing commas, permuted struct fields, repeat form), canonical and corrupted programmatic literals (permuted/duplicated/missing fields, wrong arity, out-of-range numbers, wrong tags, valid/inverted/overflowing/untyped ranges, repeat counts, wrong names) through parse_arg, literal_arg, Evaluator::set_literal, parse_output, Literal::parse/Display, set_<int>/TryFrom<EvalOutput>; the printed text of every corrupted literal through parse_arg; canonical texts with one number replaced by a number outside the range of its type (must be refused); enums with zero-field tuple variants V(); identity circuit.",
   note="Trusted: the harness codec (documented layout) and denotation function.",
   design="DESIGN.md section 2 / C09"),
 "C12": dict(
   technique="differential runtime monitor: compile_with_constants vs. the literally substituted program (values computed by the harness in wrapping arithmetic of the constant's type), plus fault injection on the supplied constants",
   text="Exploration: generated const declarations (external values, references to earlier consts, nested min/max/+/-; bool, unsigned, signed, usize incl. sizes 0 and 1, wrapping intermediates) used as operands, array sizes, repeat counts, loop trip counts, join sizes and number of parties; array sizes written as inline const exprs `const { A - B + C }` with underflowing intermediates (the compiler's second const evaluator), also over const-sized rows; a value of every such parameter through parse_arg and literal_arg of both programs; struct / enum definitions whose fields mention the constant in arbitrary positions (definition probe) and functions whose only parameter is a const-sized array (one party per element, sole array probe), both against the substituted program; party sizes, output size and flag/reason/value on 256 random inputs per case; missing entry / missing party / mistyped literal / mixed faults with inspection of the returned error.",
   note="The substituted program's own semantics are covered by C01; usize constants use 32-bit wrapping.",
   design="DESIGN.md section 2 / C12"),
 "C08": dict(
   technique="reference-model runtime monitor: an independent pattern matcher decides exhaustiveness by evaluation over all values / one representative per boundary-induced region, and predicts the first matching arm and its bindings for every evaluated scrutinee value",
   text="Exploration: generated arm lists (literals, inclusive/exclusive ranges at MIN/MAX/0, tuples, structs with '..', enums, nesting, bindings, wildcards anywhere) over generated scrutinee types; checker verdict vs oracle verdict, reported missing cases vs oracle, compiled circuit (dedup on/off) vs first-match semantics on the representative values; arm lists containing a number / range pattern outside the scrutinee's integer type or with the suffix of another type must be rejected.",
   note="Exactness of the region argument: every arm is a union of products of intervals, so one representative per elementary region per component suffices; products above 60k values are skipped and counted.",
   design="DESIGN.md section 2 / C08"),
 "C13": dict(
   technique="reference-model runtime monitor (sorted-merge join inside the interpreter, multiset oracle for join) plus complete 0/1 truth tables of the sorting networks driven through the builder hook",
   text="Exploration with exhaustive sub-spaces: bitonic sorter on all 0/1 inputs for lengths 1..14 (16 thorough), merger on all bitonic 0/1 inputs for power-of-two lengths; for-join programs with order- and key-sensitive, possibly panicking bodies on all order types of two small key sets (n+m <= 7) and random keys; join built-in on all 0/1-keyed sorted arrays and random keys incl. duplicates (plain variant); a third of the key sets mirrored to the top of the key type (maximum key present in both arrays).",
   note="Inputs respect the contract (sorted; strictly for for-join / associated data). Sizes above the bound are not covered.",
   design="DESIGN.md section 2 / C13"),
 "C01": dict(
   technique="reference-model runtime monitor: generated well-typed programs are compiled by the real compiler in 4 configurations and every execution is judged against an independent source-level interpreter",
   text="Exploration: ~10^5 generated programs per quick run (expressions, all operators with and without redundant parentheses, casts, if/match/blocks, let/let mut with and without annotation, nested assignments, loops incl. over zero-sized elements and empty arrays, calls with colliding names, top-level consts shadowed by parameters and locals, arrays/ranges/tuples/structs/enums), 24-48 boundary-biased argument tuples each, SSA and register form, dedup on and off; values compared through an independent codec and cross-checked with parse_arg / eval / parse_output; one case in eight is a for-join program, one in sixteen returns join(a, b) on sorted inputs and is judged by the oracle of the join built-in.",
   note="Trusted: the reference interpreter (Appendix A of DESIGN.md) and the harness codec/evaluators. Programs beyond the size bounds and argument values not sampled are not covered. Executions touching a listed known finding are skipped and counted.",
   design="DESIGN.md section 2 / C01"),
 "C02": dict(
   technique="reference-model runtime monitor on panic-heavy generated programs: panic flag, reason and start/end line and column of the reported location are compared with the first failing operation of the reference execution",
   text="Exploration: panic-heavy generated programs in token-per-line layout (every token on its own line, so the line span identifies the failing node), ~35% of the judged executions panic in the reference semantics, with failing operations in branches, arms, loops, callees, short-circuit operands and compound assignments; 4 configurations.",
   note="Locations (start and end, line and column) are compared in the token-per-line layout, where they identify the failing node. Where Rust-like evaluation order is under-determined (place vs. value of an assignment, struct literal field order) either first failure is accepted.",
   design="DESIGN.md section 2 / C02"),
 "C14": dict(
   technique="reference-model runtime monitor on mutation-heavy generated programs whose main returns all live variables, so any unintended change of any variable is observable",
   text="Exploration: copies followed by mutation, (compound) assignment through nested index/field accessors with constant and input-dependent indices, inside blocks, branches, arms, loops and callees with mut parameters, shadowing; 4 configurations.",
   note="Same trusted base as C01.",
   design="DESIGN.md section 2 / C14"),
 "C03": dict(
   technique="reference-model runtime monitor: every compiled operator program is executed on enumerated/boundary/random operands and each execution is judged against i128 checked arithmetic",
   text="Exploration with exhaustive sub-spaces: all 2^16 operand pairs of u8/i8 for every operator in all three operand shapes, all source values of 8/16-bit casts and unary operators, boundary cross-products plus random operands for wider types. Observes real compile+evaluate executions only.",
   note="Trusted: the harness' i128 reference arithmetic and its bit-parallel circuit evaluator (cross-checked against garble's own eval/parse_output on one lane per batch). Wider types are sampled, not enumerated.",
   design="DESIGN.md section 2 / C03"),
 "C04": dict(
   technique="event-log monitor on the real CircuitBuilder (hooks): every xor/and request, incl. those issued by rewrite rules, is replayed offline against the literal function of its operands computed from the raw gate list; built circuit vs un-pruned builder; dedup on/off differential",
   text="Exploration with exhaustive sub-spaces: all request histories up to length 3 over {xor,and,not,or,eq,mux} and length 4 over {xor,and,not} with 2 inputs (both cache settings) over the complete truth table, random long histories with composite requests (adders, dividers, comparators, sorters, panic record updates), traced real compilations, and on/off differential.",
   note="Trusted: the builder's raw gate list as literal ground truth (each raw gate is a plain XOR/AND of earlier wires, checked), the harness evaluator. Longer histories and wide programs are sampled.",
   design="DESIGN.md section 2 / C04"),
 "C06": dict(
   technique="repeated-execution monitor: every program is compiled repeatedly in-process and in fresh processes (fresh hash seeds, canary-observed) and the structural circuit hashes are compared",
   text="Exploration: programs (crafted const chains, panic sharing, many definitions, corpus, operator programs) x dedup settings, each compiled many times under varying HashMap seeds; any difference in party sizes, gate list or outputs (or Ok vs error) is a violation. History independence: every program compiled in a fresh thread and again in a fresh thread right after a sibling program (same text of every definition, other constant values / another width of a primitive type inside a type definition); crafted programs above 2^17 gates for size-triggered behaviour.",
   note="Hash seeds are sampled, not controlled; a canary map records how many distinct iteration orders were actually seen.",
   design="DESIGN.md section 2 / C06"),
 "C10": dict(
   technique="reference-model monitor: SSA circuits are converted by the real allocator and replayed in a definedness-tracking register interpreter against an independent SSA evaluator",
   text="Exploration with an exhaustive sub-space: all SSA circuits with <= 2 input bits, <= 3 gates, <= 2 outputs; random well-formed gate lists on all inputs (<= 16 bits); compiled circuits on random lanes. Checks validate(), input order, register bounds, and_ops, read-before-write and output equality.",
   note="Trusted: harness interpreters (cross-checked with garble's own evaluators on one lane per circuit).",
   design="DESIGN.md section 2 / C10"),
 "C11": dict(
   technique="round-trip monitor with an independent Bristol parser/evaluator; fault-injection (mutated files) against the importer in isolated worker processes",
   text="Exploration: compiled circuits and builder-made circuits with chosen output shapes are exported, the text is checked for well-formedness and function by an independent implementation, re-imported and compared on all inputs (<= 14 bits) or random lanes; thousands of mutated files per run are fed to the importer under a watchdog.",
   note="Trusted: the harness' Bristol reader (written from the format description). Importer runs are isolated per batch; an allocation failure for a wire count within the circuit size limit is a sandbox resource limit and only counted.",
   design="DESIGN.md section 2 / C11"),
 "C15": dict(
   technique="structural invariant monitor at the quiescent point (finished circuit): reachability, AND-operand and AND-duplicate predicates; generated data-movement programs must have zero AND gates",
   text="Exploration: every compiled corpus/operator program in both dedup settings, generated re-packing / destructuring / constant-index programs (zero AND gates demanded) and general generated programs (all constructs, zero-sized results included) for the structural predicates.",
   note="Structural reading of 'constant operand': the two constant gates directly after the inputs.",
   design="DESIGN.md section 2 / C15"),
 "C16": dict(
   technique="shadow-state monitor: arbitrary and boundary-mutated circuit values; whenever validate() accepts, the real eval runs under catch_unwind and a definedness-tracking interpreter replays it",
   text="Exploration: millions of arbitrary SSA / register circuit values and single-field mutations of valid circuits (forward/self/out-of-range references, empty parties, input instructions naming any party/index, register count 0); compiler and converter products must validate.",
   note="Inputs are of the declared shape; declared sizes are kept small enough to materialise.",
   design="DESIGN.md section 2 / C16"),
 "C07": dict(
   technique="fault-injection / totality monitor: enumerated and random perturbations of real programs and literal strings are pushed through the real scan / parse / type-check / compile (and Literal::parse) in isolated worker processes under a parent-side watchdog; panics, aborts, stack overflows, hangs, empty error lists, malformed error locations and prettify failures are observed per stage",
   text="Exploration with enumerated sub-spaces: the slot grid (about 160 000 tiny programs that put every kind of value, type, pattern and const expression - every atom and max / min / + / - over every pair of atoms - into every kind of slot: const definitions, array sizes, type positions, annotations, casts, both operands of all binary operators, assignments, indices, call arguments, branches, match / let / for patterns; enumerated completely in both tiers); every character prefix, every token prefix and every single-token deletion / duplication / adjacent swap of every corpus program (examples, doc snippets, programs quoted in the tests; extracted from the working tree at run time) - completeness is measured by the run; substitution of each token by each token of a 111-token alphabet (all positions of programs <= 400 tokens in the thorough tier, sampled in quick), insertions, two-edit mutants, generated programs with token edits and rule-breaking edits, token soup (pure and skeleton-guided), random bytes / unicode, comment and line-end insertions, nesting towers of 48 shapes up to depth 256, and the same operators on literal strings for the parameter types of corpus programs. ~1.5e7 inputs per quick run.",
   note="Termination is decided as bounded progress (10 s per input, confirmed alone with 60 s before a hang in scan / parse / check is reported). Time-outs and memory exhaustion (2 GiB address space, capacity overflow) in the compile stage are not judged: a mutant may describe an enormous circuit. Worker front-end thread: 8 MiB stack; towers <= depth 256. Known findings KF-C07-1 and KF-C07-3 keyed on cause (read off the type-checked program by the worker), KF-C07-2 on the exact tower inputs. Programs naming constants of other parties are compiled a second time with synthesized constants.",
   design="DESIGN.md section 2 / C07"),
}
NOT_APPLICABLE = {}

def main():
    hooks_commits = subprocess.run(["git","-C","/repo","log","--format=%h","--grep=^verif hooks"],capture_output=True,text=True).stdout.split()
    checks=[]
    for pid,c in sorted(CHECKS.items()):
        checks.append({
          "property_id": pid,
          "quick_cmd": f"./check {pid} quick",
          "thorough_cmd": f"./check {pid} thorough",
          "evidence_file": f"/verif/evidence/{pid}.json",
          "replay_cmd_template": f"./check {pid} --replay {{path}}",
          "engine": "gverif",
          "level_claimed": {"category":"exploration","text":c["text"],"design_ref":c["design"]},
          "level_note": c["note"],
          "technique": c["technique"],
        })
    props=[json.loads(l)["id"] for l in open("/verif/properties.jsonl")]
    na=[{"property_id":p,"reason":NOT_APPLICABLE.get(p,"check not built yet in this round (runtime monitoring applies; see DESIGN.md)")} for p in props if p not in CHECKS]
    m={
      "version":1,
      "setup_cmd":"./setup.sh",
      "hooks":{
        "guard":"cargo feature `verif_hooks` (off by default)",
        "enable":"the harness crate depends on garble_lang = { path = \"/repo\", features = [\"verif_hooks\"] }; ./check rebuilds it from /repo's working tree",
        "baseline_off_cmd":"cd /repo && cargo test --workspace --no-fail-fast --offline",
        "source_commits":hooks_commits,
        "add_only":True,
      },
      "engines":[{"name":"gverif","path":"/verif/harness","serves_properties":sorted(CHECKS),"kind_free_text":"Rust harness: workload generators, reference models, bit-parallel evaluators and oracles observing real garble_lang executions (runtime monitoring)"}],
      "checks":checks,
      "notes":"All checks are runtime monitors: they run the real garble_lang code built from /repo and judge the observed executions with independent oracles. Exit 0 held / 1 VIOLATION / 2 inconclusive. Known findings: /verif/known_findings.json.",
      "not_applicable":na,
    }
    json.dump(m,open("/verif/MANIFEST.json","w"),indent=1)
main()
