#!/usr/bin/env python3
"""Regenerates MANIFEST.json from the table below (kept in one place so it stays valid)."""
import json, subprocess

CHECKS = {
 "C03": dict(
   technique="reference-model runtime monitor: every compiled operator program is executed on enumerated/boundary/random operands and each execution is judged against i128 checked arithmetic",
   text="Exploration with exhaustive sub-spaces: all 2^16 operand pairs of u8/i8 for every operator in all three operand shapes, all source values of 8/16-bit casts and unary operators, boundary cross-products plus random operands for wider types. Observes real compile+evaluate executions only.",
   note="Trusted: the harness' i128 reference arithmetic and its bit-parallel circuit evaluator (cross-checked against garble's own eval/parse_output on one lane per batch). Wider types are sampled, not enumerated.",
   design="DESIGN.md section 2 / C03"),
}
NOT_APPLICABLE = {}

def main():
    hooks_commits = subprocess.run(["git","-C","/repo","log","--format=%h","--grep=^verif hooks"],capture_output=True,text=True).stdout.split()
    checks=[]
    for pid,c in sorted(CHECKS.items()):
        checks.append({
          "property_id": pid,
          "quick_cmd": f"./check {pid} quick",
          "thorough_cmd": f"./check {pid} thorough",
          "evidence_file": f"/verif/evidence/{pid}.json",
          "replay_cmd_template": f"./check {pid} --replay {{path}}",
          "engine": "gverif",
          "level_claimed": {"category":"exploration","text":c["text"],"design_ref":c["design"]},
          "level_note": c["note"],
          "technique": c["technique"],
        })
    props=[json.loads(l)["id"] for l in open("/verif/properties.jsonl")]
    na=[{"property_id":p,"reason":NOT_APPLICABLE.get(p,"check not built yet in this round (runtime monitoring applies; see DESIGN.md)")} for p in props if p not in CHECKS]
    m={
      "version":1,
      "setup_cmd":"./setup.sh",
      "hooks":{
        "guard":"cargo feature `verif_hooks` (off by default)",
        "enable":"the harness crate depends on garble_lang = { path = \"/repo\", features = [\"verif_hooks\"] }; ./check rebuilds it from /repo's working tree",
        "baseline_off_cmd":"cd /repo && cargo test --workspace --no-fail-fast --offline",
        "source_commits":hooks_commits,
        "add_only":True,
      },
      "engines":[{"name":"gverif","path":"/verif/harness","serves_properties":sorted(CHECKS),"kind_free_text":"Rust harness: workload generators, reference models, bit-parallel evaluators and oracles observing real garble_lang executions (runtime monitoring)"}],
      "checks":checks,
      "notes":"All checks are runtime monitors: they run the real garble_lang code built from /repo and judge the observed executions with independent oracles. Exit 0 held / 1 VIOLATION / 2 inconclusive. Known findings: /verif/known_findings.json.",
      "not_applicable":na,
    }
    json.dump(m,open("/verif/MANIFEST.json","w"),indent=1)
main()
