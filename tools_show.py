#!/usr/bin/env python3
import json,glob,sys
pid=sys.argv[1]; n=int(sys.argv[2]) if len(sys.argv)>2 else 3
fs=sorted(glob.glob(f'/verif/replays/{pid}/*.json'))
cases=[]
for f in fs:
    d=json.load(open(f))
    c=d['case']
    if 'program' in c: cases.append((len(c['program']),f,d))
cases.sort(key=lambda x:x[0])
for l,f,d in cases[:n]:
    c=d['case']
    print('=====',f,d['what'][:150])
    toks=c['program'].split()
    print(' '.join(toks))
    for m in c.get('mismatches',[])[:2]:
        print('   ',m['config'],m['verdict'],'args',m['args'],'\n      exp',json.dumps(m['expected']),'\n      obs',json.dumps(m['observed']))
    if 'problem' in c: print('   problem:',c['problem'][:500])
