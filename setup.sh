#!/bin/bash
# Offline build of the harness (and of garble_lang from /repo's working tree with hooks on).
set -e
cd "$(dirname "$0")/harness"
export CARGO_NET_OFFLINE=true
[ -f Cargo.lock ] || cp /repo/Cargo.lock .
cargo build --release --offline
